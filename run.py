#!/venv/bin/python
"""
run.py <Cnn> [--tier quick|thorough] [--replay file] [--only clause[,clause]]

Exit 0: the property held on everything explored (KNOWN-FINDING lines allowed)
Exit 1: a line "VIOLATION property=<id> replay=<path>" was printed
Exit 2: harness failure (never a VIOLATION)
"""
import os
import sys

os.environ.setdefault("OMP_NUM_THREADS", "1")
os.environ.setdefault("OPENBLAS_NUM_THREADS", "1")
os.environ.setdefault("MKL_NUM_THREADS", "1")
os.environ.setdefault("NUMBA_NUM_THREADS", "1")
os.environ.setdefault("PYTHONDONTWRITEBYTECODE", "1")
os.environ.setdefault("IBL_NEUROPIXEL_VERIF", "1")
sys.dont_write_bytecode = True
HERE = os.path.dirname(os.path.abspath(__file__))
REPO = os.environ.get("VERIF_REPO", "/repo")
sys.path.insert(0, os.path.join(REPO, "src"))
sys.path.insert(0, HERE)

import argparse  # noqa
import importlib  # noqa
import logging  # noqa
import traceback  # noqa
import warnings  # noqa


def _quiet_mtscomp():
    """determinism and silence: mtscomp's thread pool becomes sequential (chunk order = program order), its progress bars vanish"""
    import mtscomp

    class SeqPool(object):
        def __init__(self, *a, **k):
            pass

        def map(self, fn, it):
            return [fn(x) for x in it]

        def close(self):
            pass

        def join(self):
            pass

    def no_tqdm(it=None, *a, **k):
        return it
    mtscomp.ThreadPool = SeqPool
    mtscomp.tqdm = no_tqdm
    try:
        import tqdm as _tq
        import ibldsp.spiketrains as st
        st.tqdm = type("T", (), {"tqdm": staticmethod(no_tqdm)})
    except Exception:
        pass


def main():
    ap = argparse.ArgumentParser()
    ap.add_argument("prop")
    ap.add_argument("--tier", default=os.environ.get("VERIF_TIER", "quick"), choices=["quick", "thorough"])
    ap.add_argument("--replay", default=None)
    ap.add_argument("--only", default=None)
    ap.add_argument("--jobs", type=int, default=int(os.environ.get("VERIF_JOBS", "16")))
    a = ap.parse_args()
    seed = int(os.environ.get("VERIF_SEED", "0"))
    warnings.filterwarnings("ignore")
    logging.disable(logging.CRITICAL)
    from mc import engine
    _quiet_mtscomp()
    try:
        mod = importlib.import_module("checks.%s" % a.prop.lower())
        if a.replay:
            return engine.run_replay(mod, a.replay)
        only = a.only.split(",") if a.only else None
        return engine.run_check(mod, a.tier, seed, only=only, jobs=a.jobs)
    except engine.HarnessError as e:
        sys.stderr.write("HARNESS-ERROR %s: %s\n" % (a.prop, e))
        traceback.print_exc()
        return 2
    except Exception as e:  # anything escaping here is a bug of the machinery
        sys.stderr.write("HARNESS-ERROR %s: unexpected %s: %s\n" % (a.prop, type(e).__name__, e))
        traceback.print_exc()
        return 2


if __name__ == "__main__":
    sys.exit(main())
