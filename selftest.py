#!/venv/bin/python
"""setup_cmd: nothing to build (pure Python); verifies the environment the checks rely on."""
import os, sys
os.environ.setdefault("OMP_NUM_THREADS", "1")
sys.dont_write_bytecode = True
sys.path.insert(0, "/repo/src"); sys.path.insert(0, os.path.dirname(os.path.abspath(__file__)))
import numpy, scipy, joblib, mtscomp  # noqa
import spikeglx, neuropixel  # noqa
from ibldsp import utils, fourier, voltage, waveforms, waveform_extraction  # noqa
from mc import synth, engine  # noqa
assert os.path.realpath(spikeglx.__file__).startswith("/repo/src"), spikeglx.__file__
n = synth.fixture_conformance("/repo/src/tests/fixtures")
assert n > 4000, n
import json
json.load(open(os.path.join(os.path.dirname(os.path.abspath(__file__)), "known_findings.json")))
os.makedirs(os.path.join(os.path.dirname(os.path.abspath(__file__)), "evidence"), exist_ok=True)
print("selftest ok: generator conforms with %d shipped site-table entries" % n)
