"""
C10 - sync words decode to TTL lines and fronts recover every event.  Engine E1.
"""
import itertools
import os

import numpy as np

from mc.engine import Clause, Res
from mc import layouts as _layouts
from mc import synth, refmodel

import spikeglx
from ibldsp import utils


# ------------------------------------------------------------------ all 65536 words
def words_cases(tier, seed):
    # the whole word space in one vector, then in every chunking of a set of shapes
    return ["1d-all", "1d-reversed", "2d-col", "2d-row", "int32", "uint16", "chunks-1", "chunks-7", "chunks-256", "single", "twice", "long"]


def words_check(kind):
    allw = np.arange(65536, dtype=np.int64)
    signed = ((allw + 32768) % 65536 - 32768).astype(np.int16)
    ref = refmodel.bits(allw)
    v = []

    def one(arr, refsel, what):
        out = spikeglx.split_sync(arr)
        if out.shape != refsel.shape or out.dtype != np.int8 or not np.array_equal(out, refsel):
            bad = -1
            if out.shape == refsel.shape:
                bad = int(np.flatnonzero(np.any(out != refsel, axis=1))[0])
            v.append(("split_sync", "%s: line k != bit k (first bad word index %d, shape %r, dtype %s)" % (what, bad, out.shape, out.dtype)))

    if kind == "1d-all":
        one(signed, ref, kind)
    elif kind == "1d-reversed":
        one(signed[::-1], ref[::-1], kind)
    elif kind == "2d-col":
        one(signed[:, None], ref, kind)
    elif kind == "2d-row":
        one(signed[None, :], ref, kind)
    elif kind == "int32":
        one(signed.astype(np.int32), ref, kind)
    elif kind == "uint16":
        one(allw.astype(np.uint16), ref, kind)
    elif kind.startswith("chunks-"):
        c = int(kind.split("-")[1])
        for a in range(0, 65536, c * 97 if c < 256 else c):     # every chunk for c=256; a stride of chunks for tiny ones
            one(signed[a:a + c], ref[a:a + c], "%s@%d" % (kind, a))
            if v:
                break
    elif kind == "twice":
        # the same contiguous int16 words decoded as a whole, then again as a whole and in chunks: the caller's words are not consumed
        buf = signed.copy()
        keep = buf.copy()
        one(buf, ref, "first decode")
        one(buf, ref, "second decode of the same array")
        for a in range(0, 65536, 8192):
            one(buf[a:a + 8192], ref[a:a + 8192], "chunk %d after whole-array decodes" % a)
        if not np.array_equal(buf, keep):
            v.append(("split_sync:input-modified", "split_sync changed the words handed to it"))
    elif kind == "long":
        # more words in one call than any size constant found in the reader's source (every word several times, in a scrambled order)
        from mc import thresholds
        for L in thresholds.beyond(thresholds.mine([spikeglx], 20000, 1_200_000), extra=(131072, 200003), cap=1_300_000):
            idx = (np.arange(L, dtype=np.int64) * 40503 + 977) % 65536
            one(signed[idx], ref[idx], "%d words in one call" % L)
            if v:
                break
    elif kind == "single":
        for w in range(0, 65536, 1):
            if w % 257 and w not in (1, 2, 32767, 32768, 65535):
                continue
            one(signed[w:w + 1], ref[w:w + 1], "single word %d" % w)
    return Res(v, o=kind, tr=1)


# ------------------------------------------------------------------ through the reader
def reader_cases(tier, seed):
    return [("imec", "NP2.1", ".bin"), ("imec", "3B2", ".bin"), ("imec", "NP2.4", ".cbin"), ("imec", "3A", ".bin"),
            ("nidq", 1, ".bin"), ("nidq", 2, ".bin"), ("nidq", 2, ".cbin"), ("nidq", 0, ".bin")]


def reader_check(case):
    typ, par, suffix = case
    d = synth.proc_scratch(clean=True)
    v = []
    allw = np.arange(65536, dtype=np.int64)
    # a permutation of the word space so that the position in the file is not the word
    words = (allw * 40503 + 12345) % 65536
    signed = ((words + 32768) % 65536 - 32768).astype(np.int16)
    ns = 65536
    if typ == "imec":
        kind = par
        sites = [(i % 2 if kind.startswith("NP2.4") else 0, i // 2, (i % 2) if synth.family(kind) != "NP1" else (2 * (i % 2) + (i // 2) % 2))
                 for i in range(4)]
        if synth.family(kind) == "NP1":
            sites = [(0, r, c) for r in range(2) for c in ((0, 2) if r % 2 == 0 else (1, 3))]
        data = np.zeros((ns, 5), dtype=np.int16)
        data[:, :4] = (np.arange(ns)[:, None] * 3 + np.arange(4)[None, :]).astype(np.int16)
        data[:, 4] = signed
        stem = "sync_g0_t0.imec0.ap"
        fbin = synth.write_recording(d, stem, data, synth.meta_items(kind, sites, ns))
        nanalog = 0
        expected = refmodel.bits(words)
    else:
        nxa = par
        fs = 30003.0003
        nc = nxa + 1
        data = np.zeros((ns, nc), dtype=np.int16)
        rng = np.random.default_rng(5)
        thr = 1.2
        s2v = 5 / 32768
        # analog lines: a floor + values straddling the threshold after the floor (10th percentile) is removed
        an_expected = []
        for a in range(nxa):
            floor = [-300, 700][a % 2]
            lvl = np.array([0, 0, 0, int(thr / s2v) - 3, int(thr / s2v) + 3, 20000, 1], dtype=np.int64)
            tr = lvl[rng.integers(0, len(lvl), ns)] + floor
            tr[:ns // 4] = floor            # >= 25 % of the samples at the floor => the 10th percentile is the floor
            if a % 2 == 1:
                tr[ns // 4:ns // 4 + ns // 40] = floor - 9000       # 2.5 % of glitch samples far below the floor: the documented 10th percentile ignores them
            data[:, a] = tr.astype(np.int16)
            volts = (data[:, a].astype(np.float32).astype(np.float64) * s2v)
            volts = volts - np.percentile(volts, 10)
            an_expected.append((volts >= thr).astype(np.int8))
            # the straddling values must really sit on both sides, away from rounding doubt
            assert np.min(np.abs(volts - thr)) > 1e-5
        data[:, nxa] = signed
        stem = "sync_g0_t0.nidq"
        fbin = synth.write_recording(d, stem, data, synth.nidq_items(ns, xa=nxa, dw=1, fs=fs, magain=(10 if nxa == 2 else 1), mngain=200))     # analog sync lines are acquired without gain, whatever the gains of the other channel kinds
        expected = refmodel.bits(words)
        if nxa:
            expected = np.concatenate([expected, np.stack(an_expected, axis=1)], axis=1)
        nanalog = nxa
    if suffix == ".cbin":
        sr0 = spikeglx.Reader(fbin)
        sr0.compress_file(keep_original=False, n_threads=1, quiet=True, check_after_compress=False, chunk_duration=1000 / sr0.fs)
        sr0.close()
        fbin = fbin.replace(".bin", ".cbin")
    if typ == "imec" and kind in ("3B2", "NP2.4"):
        # the data file as a symbolic link into a data store whose folder holds ANOTHER acquisition's metadata of the same name (no sync channel saved):
        # the recording's own metadata, next to the link, decide what the sync channel is
        items2 = [(a, ("4,0,0" if a == "snsApLfSy" else ("4" if a == "nSavedChans" else b))) for a, b in synth.meta_items(kind, sites, ns)]
        synth.link_into_store(fbin, synth.meta_text(items2))
    sr = spikeglx.Reader(fbin)
    try:
        for sl in (slice(0, ns), slice(None), slice(100, 4321), slice(65000, 70000), slice(0, 1), slice(5, 5000, 7) if suffix == ".bin" else slice(999, 1001)):
            if nanalog and (sl.step or (sl.stop is not None and sl.stop - (sl.start or 0) < 4000)) and sl != slice(0, ns):
                # thresholded analog lines depend on the percentile of the slice read: compare them on large windows only
                exp = None
            else:
                exp = expected[sl]
            got = sr.read_sync(sl)
            if got.ndim != 2 or got.shape[0] != len(range(*sl.indices(ns))) or got.shape[1] != 16 + nanalog:
                v.append(("read_sync:shape", "read_sync(%r) has shape %r: one row per sample, 16 digital + %d analog lines expected" % (sl, got.shape, nanalog)))
                continue
            if not np.array_equal(got[:, :16], expected[sl][:, :16]):
                v.append(("read_sync:digital", "read_sync(%r): digital columns are not bit k of the sync word" % (sl,)))
            if exp is not None and nanalog and not np.array_equal(got[:, 16:], exp[:, 16:]):
                v.append(("read_sync:analog", "read_sync(%r): thresholded analog lines wrong / not after the digital lines" % (sl,)))
            dg = sr.read_sync_digital(sl)
            if not np.array_equal(dg, expected[sl][:, :16]):
                v.append(("read_sync_digital", "read_sync_digital(%r) wrong" % (sl,)))
        dat, sy = sr.read(nsel=slice(10, 300), csel=slice(None), sync=True)
        if sy.shape[0] != 290 or not np.array_equal(sy[:, :16], expected[10:300, :16]):
            v.append(("read:sync", "read(..., sync=True) returns a sync array that is not the decoded sync of the same samples"))
        # one row per sample also when the selection holds one sample or none (the short last chunk of a chunked read)
        for sel, rows in ((slice(7, 8), [7]), (slice(ns - 1, ns), [ns - 1]), (slice(40, 40), []), (slice(ns - 2, ns + 5), [ns - 2, ns - 1])):
            dat, sy = sr.read(nsel=sel, csel=slice(None), sync=True)
            sy = np.asarray(sy)
            if sy.ndim != 2 or sy.shape[0] != len(rows) or sy.shape[1] < 16 or not np.array_equal(sy[:, :16], expected[rows, :16].reshape(len(rows), 16)):
                v.append(("read:sync:rows", "read(nsel=%r, sync=True): sync array of shape %r for %d selected sample(s): one row per sample expected" % (sel, sy.shape, len(rows))))
                break
        # the same window read twice on one reader object: the caller clears what it got the first time; then another take replaces the file
        for meth in ("read_sync", "read_sync_digital"):
            sl = slice(300, 900)
            a1 = getattr(sr, meth)(sl)
            try:
                a1[...] = 0
            except Exception:
                pass
            a2 = np.asarray(getattr(sr, meth)(sl))
            if a2.shape[0] != 600 or not np.array_equal(a2[:, :16], expected[sl][:, :16]):
                v.append(("read_sync:second-read", "%s(%r) read a second time on the same reader (after the caller cleared the first result) is not the decoded sync of the file" % (meth, sl)))
        if suffix == ".bin":
            sr.close()
            raw2 = np.fromfile(fbin, dtype=np.int16).reshape(ns, -1)
            raw2[:, -1] = np.roll(raw2[:, -1], 17)
            raw2.tofile(fbin)
            sr.open()
            exp2 = np.roll(expected[:, :16], 17, axis=0)
            a3 = np.asarray(sr.read_sync_digital(slice(300, 900)))
            a4 = np.asarray(sr.read_sync(slice(300, 900)))
            if not (np.array_equal(a3, exp2[300:900]) and np.array_equal(a4[:, :16], exp2[300:900])):
                v.append(("read_sync:after-reopen", "the file was replaced by another take and the reader re-opened: read_sync of a window read before still returns the old take"))
            raw2[:, -1] = np.roll(raw2[:, -1], -17)
            raw2.tofile(fbin)
            sr.close()
            sr.open()
        ds, sy = sr.read_samples(first_sample=ns - 1, last_sample=ns) if hasattr(sr, "read_samples") else (None, np.zeros((1, 16)))
        if np.asarray(sy).ndim != 2 or np.asarray(sy).shape[0] != 1:
            v.append(("read:sync:rows", "read_samples(%d, %d): sync array of shape %r: one row per sample expected" % (ns - 1, ns, np.asarray(sy).shape)))
    finally:
        sr.close()
    return Res(v, o=(typ, nanalog), tr=14)


# ------------------------------------------------------------------ fronts on every binary train
def train_cases(tier, seed):
    L = 14 if tier == "quick" else 16
    return [(n,) for n in range(2, L + 1)]


def _ref_fronts(row, step=1):
    idx, pol = [], []
    for i in range(1, len(row)):
        dd = row[i] - row[i - 1]
        if abs(dd) >= step:
            idx.append(i)
            pol.append(1 if dd > 0 else -1)
    return idx, pol


def train_check(case):
    n = case[0]
    v = []
    M = ((np.arange(2 ** n)[:, None] >> np.arange(n)[None, :]) & 1).astype(np.float64)   # all 0/1 trains of length n
    # reference, vectorised: change points
    D = np.diff(M, axis=1)
    # 2-D along the last axis, and along axis 0 on the transpose
    for axis, X in ((1, M), (-1, M), (0, M.T.copy())):
        ind, sign = utils.fronts(X, axis=axis)
        r, c = np.nonzero(D)
        exp_sign = D[r, c]
        if axis == 0:
            got = sorted(zip(ind[1].tolist(), ind[0].tolist(), np.sign(sign).tolist()))
        else:
            got = sorted(zip(ind[0].tolist(), ind[1].tolist(), np.sign(sign).tolist()))
        exp = sorted(zip(r.tolist(), (c + 1).tolist(), exp_sign.tolist()))
        if got != exp:
            v.append(("fronts:2d", "fronts(axis=%d) on all %d-sample trains: %d events returned, %d expected (or wrong place/polarity)"
                      % (axis, n, len(got), len(exp))))
        ri = utils.rises(X, axis=axis)
        fa = utils.falls(X, axis=axis)
        for name, arr, pol in (("rises", ri, 1), ("falls", fa, -1)):
            gotp = sorted(zip(arr[1].tolist(), arr[0].tolist())) if axis == 0 else sorted(zip(arr[0].tolist(), arr[1].tolist()))
            expp = sorted((a, b) for a, b, s in exp if s == pol)
            if gotp != expp:
                v.append(("%s:2d" % name, "%s(axis=%d) on all %d-sample trains wrong" % (name, axis, n)))
    # 1-D, every train separately (int8 as returned by the reader, and float)
    nbad = 0
    for i in range(M.shape[0]):
        row = M[i]
        ei, ep = _ref_fronts(row)
        for arr in (row, row.astype(np.int8)):
            ind, sign = utils.fronts(arr)
            if ind.tolist() != ei or np.sign(sign).tolist() != ep:
                nbad += 1
                if nbad < 3:
                    v.append(("fronts:1d", "fronts(%r) = %r/%r, expected %r/%r" % (arr.tolist(), ind.tolist(), sign.tolist(), ei, ep)))
        if utils.rises(row).tolist() != [a for a, p in zip(ei, ep) if p > 0] or \
                utils.falls(row).tolist() != [a for a, p in zip(ei, ep) if p < 0]:
            nbad += 1
            if nbad < 3:
                v.append(("rises/falls:1d", "rises/falls(%r) wrong" % (row.tolist(),)))
    return Res(v, o=n, tr=9 + 4 * M.shape[0])


# ------------------------------------------------------------------ step thresholds / analog
def step_cases(tier, seed):
    L = 7 if tier == "quick" else 9
    return [(n, s) for n in range(2, L + 1) for s in (1, 0.5, 2)]


def step_check(case):
    n, step = case
    v = []
    nbad = 0
    for t in itertools.product((0.0, 1.0, 2.0), repeat=n):
        row = np.array(t)
        ei, ep = _ref_fronts(t, step)
        ind, sign = utils.fronts(row, step=step)
        ok = ind.tolist() == ei and np.sign(sign).tolist() == ep
        ok = ok and utils.rises(row, step=step).tolist() == [a for a, p in zip(ei, ep) if p > 0]
        ok = ok and utils.falls(row, step=-step).tolist() == [a for a, p in zip(ei, ep) if p < 0]
        # analog mode: the trace is thresholded (> step) first
        b = [1.0 if x > step else 0.0 for x in t]
        bi, bp = _ref_fronts(b, 1)
        ok = ok and utils.rises(row, step=step, analog=True).tolist() == [a for a, p in zip(bi, bp) if p > 0]
        nb = [1.0 if -x > -step else 0.0 for x in t]
        ni, npol = _ref_fronts(nb, 1)
        ok = ok and utils.falls(row, step=step, analog=True).tolist() == [a for a, p in zip(ni, npol) if p > 0]
        # a bipolar analog line (values -1, 0, 1) with a negative and a positive threshold
        row2 = row - 1.0
        for T in (-0.5, 0.5, 0, 0.0, np.float32(0)):
            up = [1.0 if x > T else 0.0 for x in row2]
            ui, upol = _ref_fronts(up, 1)
            dn = [1.0 if x < T else 0.0 for x in row2]
            di, dpol = _ref_fronts(dn, 1)
            if utils.rises(row2, step=T, analog=True).tolist() != [a for a, p in zip(ui, upol) if p > 0] or \
                    utils.falls(row2, step=T, analog=True).tolist() != [a for a, p in zip(di, dpol) if p > 0]:
                ok = False
                if nbad < 3:
                    v.append(("fronts:analog:bipolar", "analog trace %r with threshold %r: upward / downward crossings of the threshold are not what rises / falls return" % (row2.tolist(), T)))
        if not ok:
            nbad += 1
            if nbad < 3:
                v.append(("fronts:step", "train %r with step %r: events wrong" % (t, step)))
    # the same trains as one 2-D array, along either axis: option x axis (step thresholds and analog mode on samples-by-lines arrays as the reader returns them)
    M = np.array(list(itertools.product((0.0, 1.0, 2.0), repeat=n)))
    exp = {"rises-step": [], "falls-step": [], "rises-analog": [], "falls-analog": []}
    for r, t in enumerate(M.tolist()):
        ei, ep = _ref_fronts(t, step)
        exp["rises-step"] += [(r, a) for a, p in zip(ei, ep) if p > 0]
        exp["falls-step"] += [(r, a) for a, p in zip(ei, ep) if p < 0]
        bi, bp = _ref_fronts([1.0 if x > step else 0.0 for x in t], 1)
        exp["rises-analog"] += [(r, a) for a, p in zip(bi, bp) if p > 0]
        ni, npol = _ref_fronts([1.0 if -x > -step else 0.0 for x in t], 1)
        exp["falls-analog"] += [(r, a) for a, p in zip(ni, npol) if p > 0]
    n2 = 0
    for axis, X in ((1, M), (-1, M), (0, M.T.copy()), (-2, M.T.copy())):
        calls = {"rises-step": lambda: utils.rises(X, axis=axis, step=step), "falls-step": lambda: utils.falls(X, axis=axis, step=-step),
                 "rises-analog": lambda: utils.rises(X, axis=axis, step=step, analog=True), "falls-analog": lambda: utils.falls(X, axis=axis, step=step, analog=True)}
        for name, call in calls.items():
            n2 += 1
            try:
                arr = np.asarray(call())
                got = sorted(zip(arr[1].tolist(), arr[0].tolist())) if axis in (0, -2) else sorted(zip(arr[0].tolist(), arr[1].tolist()))
            except Exception as e:
                v.append(("fronts:2d:%s:exc" % name, "%s on a 2-D array along axis %d (step %r): %s: %s" % (name, axis, step, type(e).__name__, e)))
                continue
            if got != sorted(exp[name]):
                v.append(("fronts:2d:%s" % name, "%s on all %d-sample trains over {0,1,2} as one 2-D array along axis %d (step %r): %d events, %d expected, or at other (line, sample) places"
                          % (name, n, axis, step, len(got), len(exp[name]))))
    return Res(v, o=case, tr=5 * 3 ** n + n2)


# ------------------------------------------------------------------ end to end: trains written on each line are recovered
def e2e_cases(tier, seed):
    L = 10 if tier == "quick" else 12
    return [(line, L) for line in range(16)]


def e2e_check(case):
    line, L = case
    d = synth.proc_scratch(clean=True)
    v = []
    ntr = 2 ** L
    # all trains of length L concatenated, separated by a 0 guard, on `line`; other lines carry a fixed busy pattern
    trains = ((np.arange(ntr)[:, None] >> np.arange(L)[None, :]) & 1)
    seq = np.concatenate([trains, np.zeros((ntr, 1), dtype=trains.dtype)], axis=1).ravel()
    ns = seq.size
    other = (np.arange(ns) * 2654435761 % 65536).astype(np.int64) & ~(1 << line)
    words = other | (seq.astype(np.int64) << line)
    signed = ((words + 32768) % 65536 - 32768).astype(np.int16)
    data = np.zeros((ns, 3), dtype=np.int16)
    data[:, 2] = signed
    fbin = synth.write_recording(d, "e2e_g0_t0.imec0.ap", data, synth.meta_items("NP2.1", [(0, 0, 0), (0, 0, 1)], ns))
    sr = spikeglx.Reader(fbin)
    try:
        sy = sr.read_sync(slice(0, ns))
    finally:
        sr.close()
    ind, sign = utils.fronts(sy[:, line])
    ei, ep = _ref_fronts(seq.tolist())
    if ind.tolist() != ei or np.sign(sign).tolist() != ep:
        v.append(("e2e", "event trains written on sync line %d are not recovered (got %d events, expected %d)" % (line, len(ind), len(ei))))
    return Res(v, o=line, tr=2)


CHECK = {
    "property": "C10",
    "rule": "words: the full 16-bit space in several input forms; trains: every 0/1 train of each length; non-trivial = all",
    "assumptions": [
        "thresholded analog lines are compared on windows that contain >= 25 % floor samples (the 10th-percentile floor removal is data dependent by design)",
        "polarity is compared as the sign of the returned step",
    ],
    "clauses": [
        Clause("words", "all 65536 words through split_sync in several shapes/chunkings", cases=words_cases, check=words_check),
        Clause("reader", "all words through Reader.read_sync for imec and nidq (analog lines), bin and cbin", cases=reader_cases, check=reader_check),
        Clause("trains", "every 0/1 train of length 2..14 through fronts/rises/falls, 1-D and 2-D along both axes", cases=train_cases, check=train_check),
        Clause("steps", "every train over {0,1,2} with step thresholds and analog mode", cases=step_cases, check=step_check),
        Clause("end-to-end", "all trains on each of the 16 lines of a written recording", cases=e2e_cases, check=e2e_check),
        _layouts.make_clause(__import__("checks._layout_specs", fromlist=["x"]).c10()),
    ],
}
