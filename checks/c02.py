"""
C02 - compression is transparent, lossless and atomically published.  Engines E1 + E2.
"""
import gc
import hashlib
import itertools
import os
import shutil
from pathlib import Path

import numpy as np

from mc.engine import Clause, Res, HarnessError
from mc import synth, refmodel, histories, faults

import spikeglx
import mtscomp

CHUNK = 8        # compression chunk in samples
FS = 30000


def _sites(k):
    return [(0, i // 2, i % 2) for i in range(k)]


def _content(ns, nc, mode, seed=0):
    if mode == "separating":
        if ns * nc <= 65536:
            return synth.separating_data(ns, nc, seed=seed)
        i = np.arange(ns, dtype=np.int64)[:, None]
        c = np.arange(nc, dtype=np.int64)[None, :]
        return ((i * 389 + c * 7919) % 65536 - 32768).astype(np.int16)
    if mode == "extremes":
        d = np.where((np.arange(ns)[:, None] + np.arange(nc)[None, :]) % 2 == 0, -32768, 32767)
        return d.astype(np.int16)
    return np.zeros((ns, nc), dtype=np.int16)


def _make(d, ns, nc, mode, stem="c02_g0_t0.imec0.ap"):
    data = _content(ns, nc, mode, seed=ns)
    fbin = synth.write_recording(d, stem, data, synth.meta_items("NP2.1", _sites(nc - 1), ns))
    return fbin, data


def _compress(fbin, keep_original=True):
    sr = spikeglx.Reader(fbin)
    out = sr.compress_file(keep_original=keep_original, chunk_duration=CHUNK / FS, n_threads=1, quiet=True)
    sr.close()
    return str(out)


# ------------------------------------------------------------------ transparency / losslessness
def trans_cases(tier, seed):
    out = []
    for nc in (2, 3, 17, 385):
        top = 3 * CHUNK + 1 if nc < 385 else CHUNK + 1
        for ns in range(1, top + 1):
            for mode in ("separating", "extremes", "zero"):
                if nc == 385 and (mode != "separating" or ns not in (1, 7, 8, 9)):
                    continue
                out.append((nc, ns, mode))
    return out


def trans_check(case):
    nc, ns, mode = case
    d = synth.proc_scratch(clean=True)
    fbin, data = _make(d, ns, nc, mode)
    sha = hashlib.sha1(open(fbin, "rb").read()).hexdigest()
    seen = {}
    ntr = 0
    try:
        fcbin = _compress(fbin, keep_original=True)
    except Exception as e:
        return Res([("compress:exc", "compress_file of %d samples x %d channels (%s) raised %s: %s" % (ns, nc, mode, type(e).__name__, e))])
    srb = spikeglx.Reader(fbin, sort=False)
    src = spikeglx.Reader(fcbin, sort=False)
    try:
        if tuple(srb.shape) != tuple(src.shape) or src.shape != (ns, nc):
            seen.setdefault("transparent:shape", "ns=%d nc=%d: compressed reader has shape %r, uncompressed %r" % (ns, nc, src.shape, srb.shape))
        vals = [None] + list(range(-ns - 1, ns + 2))
        if nc == 385 or ns > 2 * CHUNK + 1:
            vals = [None, 0, 1, CHUNK - 1, CHUNK, CHUNK + 1, ns - 1, ns, ns + 1, -1, -CHUNK, -ns]
        for a, b, st in itertools.product(vals, vals, (None, 1, 2, 3, -1, -2, -3)):
            sl = slice(a, b, st)
            x = srb[sl, :]
            try:
                y = src[sl, :]
            except Exception as e:
                seen.setdefault("transparent:exc", "ns=%d nc=%d: compressed reader raised %s on %r: %s" % (ns, nc, type(e).__name__, sl, e))
                continue
            ntr += 1
            if x.shape != y.shape or x.dtype != y.dtype or not np.array_equal(x, y):
                key = "transparent:slice" + (":negative-step" if (st or 1) < 0 else "")
                seen.setdefault(key, "ns=%d nc=%d %s: sr[%r, :] on the compressed file has shape %r, on the original %r%s"
                                % (ns, nc, mode, sl, y.shape, x.shape, "" if x.shape != y.shape else " (values differ)"))
        for i in range(-ns, ns):
            if not np.array_equal(srb[i], src[i]):
                seen.setdefault("transparent:int", "ns=%d nc=%d: sr[%d] differs between compressed and original" % (ns, nc, i))
        for csel in (0, -1, slice(0, 2), [nc - 1, 0]):
            if not np.array_equal(srb[:, csel], src[:, csel]):
                seen.setdefault("transparent:channels", "ns=%d nc=%d: sr[:, %r] differs between compressed and original" % (ns, nc, csel))
        # single samples: the index as a builtin or a numpy integer (indices computed with numpy are numpy integers) x channel selectors that keep one channel as an axis
        for i in sorted({0, ns - 1, -1, min(CHUNK, ns - 1), -ns}):
            for isel in (i, np.int64(i), np.int32(i)) + ((np.uint8(i),) if 0 <= i < 256 else ()):
                for csel in (slice(None), slice(0, 1), [nc - 1], np.array([0]), 0, slice(0, 0)):
                    res = []
                    for sr in (srb, src):
                        try:
                            r = sr[isel, csel]
                            res.append((np.shape(r), np.asarray(r, dtype=np.float64).tobytes()))
                        except Exception as e:
                            res.append(("exc", type(e).__name__))
                    ntr += 1
                    if res[0] != res[1]:
                        kind = "transparent:single-sample" + (":numpy-integer" if isinstance(isel, np.integer) else "")
                        seen.setdefault(kind, "ns=%d nc=%d: sr[%s(%d), %r] gives %r on the compressed recording and %r on its original"
                                        % (ns, nc, type(isel).__name__, i, csel, res[1][0] if res[1][0] != "exc" else res[1], res[0][0] if res[0][0] != "exc" else res[0]))
                res = []
                for sr in (srb, src):
                    try:
                        d_, s_ = sr.read(nsel=isel)
                        res.append((np.shape(d_), np.asarray(d_, dtype=np.float64).tobytes(), np.shape(s_), np.asarray(s_).tobytes()))
                    except Exception as e:
                        res.append(("exc", type(e).__name__))
                if res[0] != res[1]:
                    kind = "transparent:single-sample:read" + (":numpy-integer" if isinstance(isel, np.integer) else "")
                    seen.setdefault(kind, "ns=%d nc=%d: sr.read(nsel=%s(%d)) gives %r on the compressed recording and %r on its original" % (ns, nc, type(isel).__name__, i, res[1][:1] + res[1][2:3] if res[1][0] != "exc" else res[1], res[0][:1] + res[0][2:3] if res[0][0] != "exc" else res[0]))
        if not np.array_equal(srb.read_sync(slice(0, ns)), src.read_sync(slice(0, ns))):
            seen.setdefault("transparent:sync", "read_sync differs between compressed and original")
    finally:
        srb.close()
        src.close()
    # compress followed by decompress reproduces the binary byte for byte
    os.unlink(fbin)
    try:
        sr = spikeglx.Reader(fcbin)
        out = sr.decompress_file(keep_original=False)
        sr.close()
        sha2 = hashlib.sha1(open(out, "rb").read()).hexdigest()
        if sha2 != sha:
            seen.setdefault("lossless", "ns=%d nc=%d %s: compress then decompress does not reproduce the binary" % (ns, nc, mode))
        if os.path.exists(fcbin) or os.path.exists(fcbin.replace(".cbin", ".ch")):
            seen.setdefault("decompress:keep_original=False", "the compressed source is still there after decompress_file(keep_original=False)")
    except Exception as e:
        seen.setdefault("decompress:exc", "ns=%d nc=%d: decompress_file raised %s: %s" % (ns, nc, type(e).__name__, e))
    return Res(list(seen.items()), o=(nc, ns % CHUNK, mode), tr=ntr)


# ------------------------------------------------------------------ reader options x metadata that disagrees with the data
def option_cases(tier, seed):
    out = []
    for nc in (3, 5):
        for ns in (2 * CHUNK + 3, 5 * CHUNK):
            for delta in (0, -5, -1, 1, 9, 700):
                if ns + delta < 1:
                    continue
                for iw in (False, True):
                    for sort in (False, True):
                        out.append((nc, ns, delta, iw, sort))
    return out


def option_check(case):
    """
    the metadata announces ns + delta samples (interrupted acquisition, chopped / streamed file) while the data - flat or compressed - hold ns:
    with every reader option the compressed recording and its original still look the same through the reader
    """
    nc, ns, delta, iw, sort = case
    d = synth.proc_scratch(clean=True)
    fbin, data = _make(d, ns, nc, "separating")
    fcbin = _compress(fbin, keep_original=True)
    fmeta = str(Path(fbin).with_suffix(".meta"))
    if delta:
        lines = []
        for line in open(fmeta).read().splitlines():
            if line.startswith("fileTimeSecs="):
                line = "fileTimeSecs=%r" % ((ns + delta) / FS)
            elif line.startswith("fileSizeBytes="):
                line = "fileSizeBytes=%d" % ((ns + delta) * nc * 2)
            lines.append(line)
        with open(fmeta, "w") as fh:
            fh.write("\n".join(lines) + "\n")
    seen = {}
    ctx = "ns=%d nc=%d, metadata announcing %d samples, ignore_warnings=%s sort=%s" % (ns, nc, ns + delta, iw, sort)
    ntr = 0
    srb = src = None
    try:
        srb = spikeglx.Reader(fbin, ignore_warnings=iw, sort=sort)
        src = spikeglx.Reader(fcbin, ignore_warnings=iw, sort=sort)
        if tuple(src.shape) != tuple(srb.shape) or src.ns != srb.ns or src.rl != srb.rl:
            seen.setdefault("options:shape", "%s: the compressed recording has shape %r (ns %r, %.6g s) through the reader, its original %r (ns %r, %.6g s)"
                            % (ctx, tuple(src.shape), src.ns, src.rl, tuple(srb.shape), srb.ns, srb.rl))
        if tuple(srb.shape) != (ns, nc):
            seen.setdefault("options:shape-of-data", "%s: the reader announces shape %r for a file holding %d complete samples" % (ctx, tuple(srb.shape), ns))
        for sl in (slice(None), slice(-3, None), slice(None, None, -1), slice(None, None, -2), slice(ns - 1, ns + 5), slice(CHUNK - 1, CHUNK + 2), -1, 0):
            ntr += 1
            try:
                x, y = srb[sl], src[sl]
            except Exception as e:
                seen.setdefault("options:exc:%s" % type(e).__name__, "%s: sr[%r] raised %s: %s" % (ctx, sl, type(e).__name__, e))
                continue
            ref = data[sl]
            if x.shape != y.shape or not np.array_equal(x, y):
                seen.setdefault("options:values", "%s: sr[%r] differs between the compressed recording %r and its original %r" % (ctx, sl, y.shape, x.shape))
            elif x.shape != ref.shape:
                seen.setdefault("options:shape-of-selection", "%s: sr[%r] has shape %r, the same selection of the samples on disk %r" % (ctx, sl, x.shape, ref.shape))
    except Exception as e:
        seen.setdefault("options:open:%s" % type(e).__name__, "%s: %s: %s" % (ctx, type(e).__name__, e))
    finally:
        for sr in (srb, src):
            try:
                if sr is not None:
                    sr.close()
            except Exception:
                pass
    return Res(list(seen.items()), o=(delta == 0, delta > 0, iw, sort), tr=ntr)


# ------------------------------------------------------------------ entry points
PLACES = ("plain", "symlink", "uuid+decoy", "relative")


def entry_cases(tier, seed):
    return [(present, handed, place) for present in ("bin", "cbin", "both") for handed in ("bin", "cbin", "meta") for place in PLACES]


def entry_check(case):
    present, handed, place = case
    if handed != "meta" and handed not in (present, ) and present != "both":
        return Res([], o="n/a", nt=False, tr=0)          # the path handed over must exist on disk
    d = synth.proc_scratch(clean=True)
    fbin, data = _make(d, 21, 3, "separating")
    fcbin = _compress(fbin, keep_original=True)
    if present == "cbin":
        os.unlink(fbin)
    elif present == "bin":
        os.unlink(fcbin)
        os.unlink(fcbin.replace(".cbin", ".ch"))
    fmeta = fbin.replace(".bin", ".meta")
    cwd = os.getcwd()
    if place == "symlink":
        # the data files live in a store under object names (datalad / git-annex layout) together with an unrelated metadata file of that name;
        # the session folder holds symbolic links to them next to the regular .meta / .ch files
        store = os.path.join(d, "store", "objects")
        os.makedirs(store)
        for k, f in enumerate((fbin, fcbin)):
            if os.path.exists(f):
                tgt = os.path.join(store, "obj_%04d%s" % (k, os.path.splitext(f)[1]))
                os.rename(f, tgt)
                os.symlink(tgt, f)
                other = [ln for ln in open(fmeta).read().splitlines()]
                with open(os.path.join(store, "obj_%04d.meta" % k), "w") as fh:
                    fh.write("\n".join(("nSavedChans=7" if ln.startswith("nSavedChans=") else ln) for ln in other) + "\n")
    elif place == "uuid+decoy":
        # dataset names carrying a UUID, next to a UUID-less metadata file of another acquisition (other gains, another sample count)
        uid = "a1b2c3d4-0000-4000-8000-00000000abcd"
        for f in (fbin, fcbin, fcbin.replace(".cbin", ".ch"), fmeta):
            if os.path.exists(f):
                root, ext = os.path.splitext(f)
                os.rename(f, "%s.%s%s" % (root, uid, ext))
        with open(fmeta, "w") as fh:
            fh.write(synth.meta_text(synth.meta_items("NP2.1", _sites(2), 17, vrange=0.62, maxint=2048)))
        fbin, fcbin, fmeta = ["%s.%s%s" % (os.path.splitext(f)[0], uid, os.path.splitext(f)[1]) for f in (fbin, fcbin, fmeta)]
    path = {"bin": fbin, "cbin": fcbin, "meta": fmeta}[handed]
    if place == "relative":
        os.chdir(os.path.dirname(path))
        path = os.path.basename(path)
    v = []
    ref = refmodel.calibrated(data, synth.ref_s2v("NP2.1", "ap", 2, 1))
    try:
        sr = spikeglx.Reader(path, sort=False)
        fb = sr.file_bin
        if fb is None or not Path(fb).exists() or Path(fb).suffix not in (".bin", ".cbin"):
            v.append(("entry:no-data-file:%s-only:%s" % (present, handed), "files on disk: %s; Reader(%s) resolves its data file to %r" % (present, os.path.basename(path), fb)))
        else:
            if not sr.is_open:
                sr.open()
            got = sr[:, :]
            if tuple(sr.shape) != data.shape or not refmodel.calib_close(got, ref):
                v.append(("entry:content", "files on disk: %s; Reader(%s) does not read the recording (shape %r)" % (present, os.path.basename(path), sr.shape)))
        sr.close()
    except Exception as e:
        v.append(("entry:exc:%s-only:%s" % (present, handed), "files on disk: %s; Reader(%s) raised %s: %s" % (present, os.path.basename(path), type(e).__name__, e)))
    finally:
        os.chdir(cwd)
    if place != "plain":
        v = [(k + ":" + place, "[%s] %s" % ({"symlink": "data files are symbolic links into a store folder holding an unrelated metadata file", "uuid+decoy": "UUID in the dataset names, a UUID-less metadata file of another acquisition in the same folder",
                                              "relative": "relative path (working directory = the session folder)"}[place], m)) for k, m in v]
    return Res(v, o=case, tr=1)


# ------------------------------------------------------------------ E2: in-place variants and faults
NS_H, NC_H = 25, 3
STEM = "c02_g0_t0.imec0.ap"


class CompModel(object):
    fault_kinds = ("kill", "error", "corrupt")

    @staticmethod
    def corruptible(event, label):
        # a compressed chunk that reaches the disk damaged: compression with its (default) verification pass must notice and fail
        return event["name"] == "compress_file" and event.get("check_after_compress") is not False and label == "step:compress-chunk"

    @staticmethod
    def info_key(info):
        return "+after-fault" if info.get("faulted") else ""

    def __init__(self, tier, start):
        self.tier = tier
        self.start = start

    def initial(self):
        root = os.path.join(synth.proc_scratch(), "c02_init_%s" % self.start)
        shutil.rmtree(root, ignore_errors=True)
        os.makedirs(root)
        fbin, data = _make(root, NS_H, NC_H, "separating")
        if self.start == "cbin":
            _compress(fbin, keep_original=False)
        return [(histories.snapshot(root), dict(start=self.start))]

    def events(self, info, depth):
        ev = []
        for keep in (True, False):
            ev.append(dict(name="compress_file", keep_original=keep))
            ev.append(dict(name="compress_file", keep_original=keep, check_after_compress=False))
            ev.append(dict(name="decompress_file", keep_original=keep))
        ev.append(dict(name="decompress_to_scratch", scratch=None))
        ev.append(dict(name="decompress_to_scratch", scratch="scratch"))
        return ev

    def run(self, root, event, crash_at, kind="kill"):
        fbin = os.path.join(root, STEM + ".bin")
        fcbin = os.path.join(root, STEM + ".cbin")
        fch = os.path.join(root, STEM + ".ch")
        name = event["name"]
        if name == "compress_file":
            # enabled on a complete uncompressed recording only (an interrupted in-place decompression may leave a partial .bin:
            # compressing that is garbage in, not something the property speaks about)
            if not os.path.exists(fbin) or open(fbin, "rb").read() != self._orig().tobytes():
                return None, None
            target = fbin
        else:
            if not (os.path.exists(fcbin) and os.path.exists(fch)):
                return None, None
            target = fcbin
        def damage(res):
            import zlib
            idx, (chunk, cdc) = res
            raw = bytearray(zlib.decompress(cdc))
            raw[len(raw) // 2] ^= 0x01
            return idx, (chunk, zlib.compress(bytes(raw)))
        steps = [(mtscomp.Writer, "_compress_chunk", "compress-chunk", damage), (mtscomp.Reader, "_decompress_chunk", "decompress-chunk"),
                 (mtscomp, "check", "post-check")]
        obs = dict(status=None, exc=None)
        with faults.watch(root, crash_at=crash_at, steps=steps, kind=kind) as w:
            sr = None
            try:
                sr = spikeglx.Reader(target, sort=False)
                if name == "compress_file":
                    extra = {"check_after_compress": False} if event.get("check_after_compress") is False else {}
                    out = sr.compress_file(keep_original=event["keep_original"], chunk_duration=CHUNK / FS, n_threads=1, quiet=True, **extra)
                elif name == "decompress_file":
                    out = sr.decompress_file(keep_original=event["keep_original"])
                else:
                    sd = None if event["scratch"] is None else Path(root).joinpath(event["scratch"])
                    out = sr.decompress_to_scratch(scratch_dir=sd)
                obs["status"] = os.path.relpath(str(out), root)
            except faults.Crash:
                raise
            except Exception as e:
                obs["exc"] = "%s: %s" % (type(e).__name__, str(e)[:200])
            finally:
                try:
                    if sr is not None:
                        sr.close()
                except BaseException:
                    pass
        gc.collect()
        if w.crashed:
            obs["status"] = "crashed"
        return obs, w

    def _orig(self):
        return _content(NS_H, NC_H, "separating", seed=NS_H)

    def _decode(self, fcbin, fch):
        try:
            r = mtscomp.Reader(check_after_decompress=False)
            r.open(fcbin, fch)
            a = np.array(r[0:r.n_samples])
            r.close()
            return a
        except Exception:
            return None

    def judge(self, root, pre_snap, info, event, crash, obs, log, fault="kill"):
        v = []
        data = self._orig()
        raw = data.tobytes()
        fbin = os.path.join(root, STEM + ".bin")
        fcbin = os.path.join(root, STEM + ".cbin")
        fch = os.path.join(root, STEM + ".ch")
        ctx = "%s%s" % (_ev(event), "" if crash is None else " %s point %d (%s)" % ({"kill": "killed before", "error": "with an I/O error injected at", "corrupt": "with the data written at"}.get(fault, fault) + (" damaged:" if fault == "corrupt" else ""), crash, log[crash] if crash < len(log) else "?"))
        failed = crash is not None and (fault == "kill" or obs.get("exc") is not None)
        bin_ok = os.path.exists(fbin) and open(fbin, "rb").read() == raw
        cbin_dec = self._decode(fcbin, fch) if (os.path.exists(fcbin) and os.path.exists(fch)) else None
        cbin_ok = cbin_dec is not None and cbin_dec.shape == data.shape and np.array_equal(cbin_dec, data)
        # (a) recoverable
        if not (bin_ok or cbin_ok):
            v.append(("recoverable", "%s: neither a complete .bin nor a decodable .cbin/.ch pair is left (files: %s)" % (ctx, sorted(os.listdir(root)))))
        # (b) a file carrying a final name is complete
        if os.path.exists(fcbin) and not cbin_ok:
            v.append(("final-name:cbin", "%s: a file named .cbin exists but does not decode to the full recording (files: %s)" % (ctx, sorted(os.listdir(root)))))
        sdir = os.path.join(root, "scratch")
        fs = os.path.join(sdir, STEM + ".bin")
        if os.path.exists(fs) and open(fs, "rb").read() != raw:
            v.append(("final-name:scratch-bin", "%s: the scratch .bin exists but is not the complete recording" % ctx))
        if event["name"] == "decompress_to_scratch" and event["scratch"] is None and os.path.exists(fbin) and not bin_ok \
                and (STEM + ".bin") not in pre_snap:
            v.append(("final-name:bin", "%s: decompress_to_scratch left an incomplete file under the final .bin name" % ctx))
        # (c) a faulted compress / decompress-to-scratch leaves its source untouched
        if crash is not None and not failed:
            pass        # the library absorbed the injected error and returned normally: only the state invariants (a), (b) apply
        elif crash is not None:
            if event["name"] == "compress_file" and not bin_ok:
                v.append(("source-touched:compress", "%s: the uncompressed source is gone or modified after an interrupted compression" % ctx))
            if event["name"] == "decompress_to_scratch" and not cbin_ok:
                v.append(("source-touched:scratch", "%s: the compressed source is gone or modified after an interrupted decompression to scratch" % ctx))
        else:
            refused = obs["exc"] is not None and event["name"] == "decompress_file" and (STEM + ".bin") in pre_snap
            if refused:
                # decompressing onto an existing .bin may be refused (mtscomp does not overwrite) - then nothing may have changed
                if histories.canon(histories.snapshot(root)) != histories.canon(pre_snap):
                    v.append(("event:refused-but-changed", "%s was refused (%s) but changed the directory: %s -> %s"
                              % (ctx, obs["exc"], sorted(pre_snap), sorted(os.listdir(root)))))
            elif obs["exc"] is not None:
                # in a directory left by an interrupted operation a later call may refuse to work (stale temporary file ...): the statement only promises
                # what the directory holds after a failure, so a refusal is an alarm only in histories without any fault
                if not info.get("faulted"):
                    v.append(("event:exc:%s" % event["name"], "%s raised %s (files before: %s)" % (ctx, obs["exc"], sorted(k for k in pre_snap))))
            else:
                out = os.path.join(root, obs["status"])
                if not os.path.exists(out):
                    v.append(("event:result-missing", "%s returned %s which does not exist" % (ctx, obs["status"])))
                elif event["name"] == "compress_file":
                    if not cbin_ok or (not event["keep_original"] and os.path.exists(fbin)) or (event["keep_original"] and not bin_ok):
                        v.append(("event:compress", "%s: result wrong (cbin complete: %s, bin present: %s)" % (ctx, cbin_ok, os.path.exists(fbin))))
                elif event["name"] == "decompress_file":
                    if not bin_ok or (not event["keep_original"] and (os.path.exists(fcbin) or os.path.exists(fch))) or (event["keep_original"] and not cbin_ok):
                        v.append(("event:decompress", "%s: result wrong (bin complete: %s, cbin present: %s)" % (ctx, bin_ok, os.path.exists(fcbin))))
                else:
                    got = open(out, "rb").read() if os.path.exists(out) else b""
                    if got != raw and (STEM + ".bin") not in pre_snap:
                        v.append(("event:scratch", "%s: the returned file %s is not the complete recording" % (ctx, obs["status"])))
                    if event["scratch"] is not None and not os.path.exists(os.path.join(sdir, STEM + ".meta")):
                        v.append(("event:scratch-meta", "%s: metadata not copied next to the scratch file" % ctx))
        info2 = dict(info)
        if crash is not None:
            info2["faulted"] = True
        return v, info2

    def expand(self, sid, snap, info, event, fault_budget):
        root = os.path.join(synth.proc_scratch(), "c02_run")
        return histories.expand_with_faults(self, root, snap, info, event, fault_budget)


def _ev(e):
    return "%s(%s)" % (e["name"], ", ".join("%s=%r" % (k, v) for k, v in e.items() if k != "name"))


def _mk(start):
    def run(tier, seed, jobs):
        depth = 4 if tier == "quick" else 6
        nf = 2 if tier == "quick" else 3
        return histories.bfs(CompModel(tier, start), "faults-from-%s" % start, tier, jobs, depth, nf, cap_states=None if tier == "quick" else 600)
    return run


def _replay(case):
    start = case["model"].replace("faults-from-", "")
    model = CompModel("quick", start)
    (snap, info), = model.initial()
    viol = []
    root = os.path.join(synth.proc_scratch(), "c02_replay")
    for ev in case["history"]:
        crash = ev.get("crash")
        fault = ev.get("fault", "kill")
        event = {k: v for k, v in ev.items() if k not in ("crash", "fault")}
        histories.restore(root, snap)
        obs, w = model.run(root, event, crash, kind=fault)
        if obs is None:
            raise HarnessError("recorded event not enabled in replay")
        viol, info = model.judge(root, snap, info, event, crash, obs, w.log, fault=fault)
        snap = histories.snapshot(root)
    return Res(viol)


CHECK = {
    "property": "C02",
    "rule": "transparency: every (channels, samples 1..3c+1, content) x every slice; entry points: all 3x3 combinations; faults: BFS over histories of "
            "compress/decompress/scratch events on a real directory with a crash before every deviation point; non-trivial = chunk-straddling slices / faulted or multi-step histories",
    "assumptions": [
        "compression chunk = 8 samples; contents: separating, alternating int16 extremes, zero",
        "fault part: 25 samples x 3 channels (4 chunks), histories of length <= 4 with <= 2 crashes (thorough: 6 / 3); deviation points = every filesystem mutation below the "
        "directory + every per-chunk (de)compression call + mtscomp's post-check; mtscomp single-threaded",
        "decompress_file onto an existing .bin may be refused (mtscomp does not overwrite): then the directory must be unchanged; in-place decompression writes "
        "straight to the final name (the property promises atomic publication for compression and decompression to scratch only), so a partial .bin can exist - "
        "the compressed source must then survive",
    ],
    "clauses": [
        Clause("transparent", "cbin reader == bin reader for every slice; compress+decompress = identity", cases=trans_cases, check=trans_check),
        Clause("long-reads", "compressed and uncompressed recording longer than every block size mined from the reader's source: strided / reversed slices against NumPy indexing",
               cases=lambda tier, seed: __import__("checks.c01", fromlist=["x"]).long_cases(tier, seed),
               check=lambda case: __import__("checks.c01", fromlist=["x"]).long_check(case)),
        Clause("reader-options", "ignore_warnings x sort x metadata announcing more / fewer samples than the (flat or compressed) data hold: compressed and original indistinguishable",
               cases=option_cases, check=option_check),
        Clause("entry-points", "bin / cbin / meta path x which files exist", cases=entry_cases, check=entry_check),
        Clause("faults-from-bin", "histories with crashes starting from an uncompressed recording", run=_mk("bin"), replay=_replay),
        Clause("faults-from-cbin", "histories with crashes starting from a compressed recording", run=_mk("cbin"), replay=_replay),
    ],
}
