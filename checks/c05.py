"""
C05 - destriping removes ADC-skewed common noise and keeps local spikes.  Engine E1.
"""
import itertools

import numpy as np
import scipy.signal

from mc.engine import Clause, Res
from mc import layouts as _layouts

import neuropixel
from ibldsp import voltage, fourier
from neurowaveforms.model import generate_waveform

SEED = [0]
TABLES = {"NP1": dict(version=1, nshank=1), "NP2": dict(version=2, nshank=1), "NP2.4": dict(version=2, nshank=4), "NPultra": dict(version="NPultra", nshank=1)}


def _setup(tier, seed):
    SEED[0] = seed


def _h(tab):
    return neuropixel.trace_header(**TABLES[tab])


def _phys(tab):
    """
    the physical sampling delay of each channel, from the hardware description (NP1 / NPultra: 32 ADCs of 12 channels sampled in 13 slots, channels 2k and 2k+1 of a
    block of 24 converted together; NP2: 16 slots, blocks of 32) - written here independently of the library's table, so that the *recorded* data do not inherit a
    mistake of that table (property C08 compares the table itself with this description)
    """
    c = np.arange(384)
    if tab in ("NP1", "NPultra"):
        return ((c % 24) // 2) / 13.0
    return ((c % 32) // 2) / 16.0


def _version(tab):
    return {"NP1": 1, "NP2": 2, "NP2.4": 2, "NPultra": 1}[tab]


def skewed(S, shifts, n):
    """the signal with half spectrum S recorded on each channel at its own sampling delay: x_c[t] = s(t + shift_c)"""
    k = np.arange(S.size)
    return np.fft.irfft(S[None, :] * np.exp(2j * np.pi * k[None, :] * shifts[:, None] / n), n, axis=1)


# ------------------------------------------------------------------ (a) alignment on the sinusoid basis
def align_cases(tier, seed):
    n = 256 if tier == "quick" else 2048
    blocks = 8 if tier == "quick" else 32
    ks = np.arange(1, n // 2)
    parts = np.array_split(ks, blocks)
    return [(tab, n, int(p[0]), int(p[-1]) + 1) for tab in TABLES for p in parts]


def align_check(case):
    tab, n, k0, k1 = case
    h = _h(tab)
    sh = h["sample_shift"]
    t = np.arange(n)
    v = []
    worst = 0.0
    for k in range(k0, k1):
        for phase in (0.0, np.pi / 2):
            x = np.cos(2 * np.pi * k * (t[None, :] + sh[:, None]) / n + phase)
            y = fourier.fshift(x, sh, axis=1)
            ref = np.cos(2 * np.pi * k * t / n + phase)
            err = float(np.max(np.abs(y - ref[None, :])))
            worst = max(worst, err)
            if err > 1e-9:
                v.append(("align", "%s: after the ADC shift correction a bin-%d sinusoid (n=%d) hitting all channels at the same instant differs across channels by %.3g"
                          % (tab, k, n, err)))
                return Res(v, o=tab, tr=2 * (k - k0 + 1))
    return Res(v, o=tab, tr=2 * (k1 - k0))


# ------------------------------------------------------------------ (b) whole pipeline on composite stripes
def stripe_cases(tier, seed):
    out = []
    for tab in TABLES:
        for pulse in range(8):
            for variant in ("kfilt", "car"):
                out.append((tab, pulse, variant, "ap"))
        for pulse in range(4):
            for variant in ("car", "kfilt"):
                out.append((tab, pulse, variant, "lf"))
    return out


def _pulse(n, fs, pulse, band, rng):
    """band-limited pulse: a disjoint set of bins per pulse index, Gaussian envelope in frequency, random phases"""
    f = np.fft.rfftfreq(n, 1 / fs)
    if band == "ap":
        edges = np.linspace(300, 0.9 * fs / 2, 9)
    else:
        edges = np.linspace(10, 200, 5)
    lo, hi = edges[pulse], edges[pulse + 1]
    S = np.zeros(f.size, dtype=complex)
    sel = (f >= lo) & (f < hi)
    fc, bw = (lo + hi) / 2, (hi - lo) / 4
    S[sel] = np.exp(-0.5 * ((f[sel] - fc) / bw) ** 2) * np.exp(2j * np.pi * rng.random(sel.sum()))
    # a pulse: Gaussian envelope in time centred in the window, so that the window edges are quiet (no filter edge transients)
    t = np.arange(n)
    env = np.exp(-0.5 * ((t - n / 2) / (n / 12.0)) ** 2)
    return np.fft.rfft(np.fft.irfft(S, n) * env)


def stripe_check(case):
    tab, pulse, variant, band = case
    h = _h(tab)
    sh = _phys(tab)          # what the probe does to the signal; the library is handed its own header
    rng = np.random.default_rng([SEED[0] + 3, pulse])
    v = []
    if band == "ap":
        fs, n = 30000, 1500
    else:
        fs, n = 2500, 5000
    S = _pulse(n, fs, pulse, band, rng)
    ntr = 0
    for amp in (10e-6, 1e-3):
        x = skewed(S, sh, n)
        x = x / np.sqrt(np.mean(x[0] ** 2)) * amp
        if band == "ap":
            out = voltage.destripe(x.copy(), fs, h=h, neuropixel_version=_version(tab), k_filter=(variant == "kfilt"))
            sos = scipy.signal.butter(N=3, Wn=300 / fs * 2, btype="highpass", output="sos")
        else:
            out = voltage.destripe_lfp(x.copy(), fs, h=h, k_filter=(variant == "kfilt"))
            sos = scipy.signal.butter(N=3, Wn=[0.5, 300], btype="bandpass", fs=fs, output="sos")
        ntr += 1
        ref = scipy.signal.sosfiltfilt(sos, x)
        m = slice(None)
        db = 20 * np.log10(np.sqrt(np.mean(out[:, m] ** 2)) / np.sqrt(np.mean(ref[:, m] ** 2)) + 1e-300)
        if out.shape != x.shape or not db <= -40:
            v.append(("stripe:%s:%s" % (band, variant), "%s %s %s pulse %d amplitude %g: a disturbance common to all channels is attenuated by %.1f dB only"
                      % (tab, band, variant, pulse, amp, db)))
            break
    return Res(v, o=(tab, variant, band), tr=ntr)


# ------------------------------------------------------------------ (c) spikes at every depth
def spike_cases(tier, seed):
    out = []
    step = 2 if tier == "quick" else 1
    for tab in ("NP1", "NP2"):
        for variant in ("kfilt", "car"):
            for pc in range(0, 384, step):
                out.append((tab, variant, pc))
    return out


_NOISE = {}


def spike_check(case):
    tab, variant, pc = case
    h = _h(tab)
    fs, n = 30000, 1500
    key = (tab, SEED[0])
    if key not in _NOISE:
        rng = np.random.default_rng([SEED[0] + 11, len(tab)])
        _NOISE[key] = rng.standard_normal((384, n)) * 8e-6
    noise = _NOISE[key]
    wxy = np.c_[h["x"], h["y"], np.zeros(384)]
    sxy = np.array([h["x"][pc] + 2.0, h["y"][pc] + 1.5, 5.0])
    wav = generate_waveform(sxy=sxy, wxy=wxy, fs=fs)          # (384, 121)
    wav = wav / np.abs(wav).max() * 300e-6
    true = np.zeros((384, n))
    t0 = 700
    true[:, t0:t0 + wav.shape[1]] = wav
    x = fourier.fshift(true + noise, -_phys(tab), axis=1)       # recorded with each channel's physical ADC delay
    out = voltage.destripe(x.copy(), fs, h=h, neuropixel_version=_version(tab), k_filter=(variant == "kfilt"))
    sos = scipy.signal.butter(N=3, Wn=300 / fs * 2, btype="highpass", output="sos")
    ref = fourier.fshift(scipy.signal.sosfiltfilt(sos, x), _phys(tab), axis=1)
    ic, it = np.unravel_index(np.argmax(np.abs(ref[:, t0:t0 + 121])), (384, 121))
    it += t0
    ratio = out[ic, it] / ref[ic, it]
    v = []
    nch = int(np.sum(np.abs(wav).max(axis=1) > 0.1 * 300e-6))
    if not ratio >= 0.9:
        v.append(("spike:%s" % variant, "%s %s: a spike on channel %d (confined to %d channels) keeps %.3f of its high-passed amplitude" % (tab, variant, pc, nch, ratio)))
    return Res(v, o=(tab, variant), tr=1)


# ------------------------------------------------------------------ (d) outside-brain channels are excluded from the spatial filter
def label_cases(tier, seed):
    out = []
    for variant in ("kfilt", "car"):
        for top in (list(range(0, 41, 4)) if tier == "quick" else range(0, 41)):
            out.append((variant, top))
    return out


def label_check(case):
    variant, top = case
    h = _h("NP1")
    fs, n = 30000, 900
    rng = np.random.default_rng([SEED[0] + 17, top])
    x = rng.standard_normal((384, n)) * 20e-6 + 40e-6 * np.sin(np.arange(n) / 7.0)[None, :]
    labels = np.zeros(384)
    if top:
        labels[384 - top:] = 3
    labels[[50, 201]] = (1, 2)
    v = []
    out = voltage.destripe(x.copy(), fs, h=h, neuropixel_version=1, k_filter=(variant == "kfilt"), channel_labels=labels.copy())
    sos = scipy.signal.butter(N=3, Wn=300 / fs * 2, btype="highpass", output="sos")
    ref = fourier.fshift(scipy.signal.sosfiltfilt(sos, x), h["sample_shift"], axis=1)
    outside = labels == 3
    if top and not np.allclose(out[outside], ref[outside], rtol=0, atol=1e-15):
        v.append(("labels:outside-filtered", "%s top block %d: rows labelled outside the brain differ from the high-passed, re-aligned input (the spatial filter touched them)" % (variant, top)))
    # the inside rows must not depend on what the outside rows contain
    x2 = x.copy()
    x2[outside] += 5e-3 * np.cos(np.arange(n) / 3.0)[None, :]
    out2 = voltage.destripe(x2.copy(), fs, h=h, neuropixel_version=1, k_filter=(variant == "kfilt"), channel_labels=labels.copy())
    # bad channels next to the block are interpolated from outside rows too (that is C15's business): compare the others
    far = ~outside & (np.arange(384) < 384 - top - 8)
    if top and not np.allclose(out2[far], out[far], rtol=0, atol=1e-12):
        v.append(("labels:outside-leaks", "%s top block %d: the destriped inside channels change when only the outside-brain rows change (max %.3g)"
                  % (variant, top, float(np.max(np.abs(out2[far] - out[far]))))))
    # and with no label at all the spatial filter sees every row
    if top:
        out3 = voltage.destripe(x2.copy(), fs, h=h, neuropixel_version=1, k_filter=(variant == "kfilt"))
        if np.allclose(out3[far], out[far], rtol=0, atol=1e-9):
            v.append(("labels:vacuous", "harness: the outside rows have no influence even without labels"))
    return Res(v, o=(variant, top > 0), tr=3)


# ------------------------------------------------------------------ (d2) outside labels anywhere on the probe: the inside channels are still destriped
def scatter_cases(tier, seed):
    pats = [[200], [100, 250], [0], [383], [5, 6, 7, 300], list(range(360, 384)) + [150], list(range(0, 10)) + [380],
            # (label 3 positions, dead positions, noisy positions)
            ([], [100], []), ([], [23], [200]), ([], [0, 191, 192, 383], []), (list(range(370, 384)), [40, 41], [300])]
    return [(tab, variant, pi) for tab in ("NP1", "NP2", "NPultra") for variant in ("kfilt", "car") for pi in range(len(pats))], pats


def _scatter_cases(tier, seed):
    return scatter_cases(tier, seed)[0]


def scatter_check(case):
    tab, variant, pi = case
    pats = scatter_cases("quick", 0)[1]
    h = _h(tab)
    fs, n = 30000, 1500
    rng = np.random.default_rng([SEED[0] + 43, pi])
    S = _pulse(n, fs, 3, "ap", rng)
    x = skewed(S, h["sample_shift"], n)
    x = x / np.sqrt(np.mean(x[0] ** 2)) * 100e-6
    labels = np.zeros(384)
    if isinstance(pats[pi], tuple):
        labels[pats[pi][0]] = 3
        labels[pats[pi][1]] = 1
        labels[pats[pi][2]] = 2
        x[pats[pi][1]] = 0.0                                            # a dead channel records nothing
        x[pats[pi][2]] += 80e-6 * rng.standard_normal((len(pats[pi][2]), n))  # a noisy one its own noise
    else:
        labels[pats[pi]] = 3
    out = voltage.destripe(x.copy(), fs, h=h, neuropixel_version=_version(tab), k_filter=(variant == "kfilt"), channel_labels=labels.copy())
    sos = scipy.signal.butter(N=3, Wn=300 / fs * 2, btype="highpass", output="sos")
    ref = scipy.signal.sosfiltfilt(sos, x)
    inside = labels != 3
    # per channel attenuation on the inside channels (relative to the disturbance as recorded on a good channel)
    num = np.sqrt(np.mean(out[inside] ** 2, axis=1))
    den = np.full(int(inside.sum()), np.sqrt(np.mean(ref[np.flatnonzero(labels == 0)[0]] ** 2)))
    db = 20 * np.log10(num / den + 1e-300)
    v = []
    if np.max(db) > -40:
        ch = np.flatnonzero(inside)[int(np.argmax(db))]
        key = "labels:bad-channels" if isinstance(pats[pi], tuple) else "labels:scattered-outside"
        v.append((key, "%s %s labels %r: inside channel %d (label %d) keeps the common disturbance (%.1f dB); %d inside channels above -40 dB"
                  % (tab, variant, pats[pi] if isinstance(pats[pi], tuple) else pats[pi][:6], ch, labels[ch], float(np.max(db)), int(np.sum(db > -40)))))
    # channels labelled outside the brain are excluded from the spatial filter wherever they sit: they come back as the high-passed, re-aligned input ...
    outside = labels == 3
    ntr = 1
    if outside.any():
        refo = fourier.fshift(ref, h["sample_shift"], axis=1)
        if not np.allclose(out[outside], refo[outside], rtol=0, atol=1e-13):
            ch = np.flatnonzero(outside)[int(np.argmax(np.max(np.abs(out[outside] - refo[outside]), axis=1)))]
            v.append(("labels:outside-filtered:anywhere", "%s %s labels-3 at %r: channel %d labelled outside the brain differs from the high-passed, re-aligned input by %.3g (the spatial filter touched it)"
                      % (tab, variant, np.flatnonzero(outside)[:8].tolist(), ch, float(np.max(np.abs(out[ch] - refo[ch]))))))
        # ... and what they carry has no influence on the inside channels
        x2 = x.copy()
        x2[outside] += 3e-3 * np.cos(np.arange(n) / 3.0)[None, :]
        out2 = voltage.destripe(x2.copy(), fs, h=h, neuropixel_version=_version(tab), k_filter=(variant == "kfilt"), channel_labels=labels.copy())
        ntr += 1
        # bad channels are repaired from their neighbours, outside ones included (C15's business): compare the good channels
        good = labels == 0
        badch = np.flatnonzero((labels == 1) | (labels == 2))
        oc = np.flatnonzero(outside)
        reach = badch.size and np.min(np.hypot(h["x"][badch][:, None] - h["x"][oc][None, :], h["y"][badch][:, None] - h["y"][oc][None, :])) < 150
        # (a bad channel within kriging reach of an outside channel is legitimately repaired from it and then takes part in the spatial filter)
        if not reach and not np.allclose(out2[good], out[good], rtol=0, atol=1e-11):
            ch = np.flatnonzero(good)[int(np.argmax(np.max(np.abs(out2[good] - out[good]), axis=1)))]
            v.append(("labels:outside-leaks:anywhere", "%s %s labels-3 at %r: good channel %d changes by %.3g when only the outside-brain channels change"
                      % (tab, variant, np.flatnonzero(outside)[:8].tolist(), ch, float(np.max(np.abs(out2[ch] - out[ch]))))))
    return Res(v, o=(tab, variant), tr=ntr)


# ------------------------------------------------------------------ (b2) arrays longer than the file batch size
def long_cases(tier, seed):
    return [(variant, ns) for variant in ("kfilt", "car") for ns in ((65536, 65537, 70536) if tier == "quick" else (65535, 65536, 65537, 70536, 131072, 131073, 140001))]


def long_check(case):
    variant, ns = case
    nc = 32
    h0 = _h("NP1")
    h = {k: np.asarray(vv)[:nc] for k, vv in h0.items()}
    fs = 30000
    rng = np.random.default_rng([SEED[0] + 47, ns])
    t = np.arange(ns)
    v = []
    # three bursts of a common 1 kHz disturbance: near the start, in the middle, and in the tail of the array
    centres = [3000, ns // 2, ns - 2500]
    s = np.zeros(ns)
    for c in centres:
        s += np.exp(-0.5 * ((t - c) / 300.0) ** 2) * np.sin(2 * np.pi * 1000 * t / fs)
    S = np.fft.rfft(s)
    x = skewed(S, h["sample_shift"], ns) * 100e-6
    k_kwargs = {"ntr_pad": 8, "ntr_tap": 0, "lagc": int(fs / 10), "butter_kwargs": {"N": 3, "Wn": 0.1, "btype": "highpass"}}
    out = voltage.destripe(x.copy(), fs, h=h, neuropixel_version=1, k_filter=(variant == "kfilt"), k_kwargs=k_kwargs)
    sos = scipy.signal.butter(N=3, Wn=300 / fs * 2, btype="highpass", output="sos")
    ref = scipy.signal.sosfiltfilt(sos, x)
    for c, name in zip(centres, ("start", "middle", "tail")):
        w = slice(c - 1500, c + 1500)
        db = 20 * np.log10(np.sqrt(np.mean(out[:, w] ** 2)) / np.sqrt(np.mean(ref[:, w] ** 2)) + 1e-300)
        if not db <= -40:
            v.append(("stripe:long-array:%s" % name, "%s on %d channels x %d samples: the burst in the %s of the array (sample %d) is attenuated by %.1f dB only" % (variant, nc, ns, name, c, db)))
    return Res(v, o=(variant, ns > 65536), tr=1)


# ------------------------------------------------------------------ (e3) the referencing options reach the referencing step through destripe
def dopt_cases(tier, seed):
    return [(tab, op, grouped) for tab in ("NP1", "NP2", "NPultra") for op in ("median", "average") for grouped in (False, True)]


def dopt_check(case):
    tab, op, grouped = case
    h = _h(tab)
    fs, n = 30000, 700
    rng = np.random.default_rng([SEED[0] + 61, len(tab)])
    x = rng.standard_normal((384, n)) * 30e-6 + 60e-6 * np.sin(np.arange(n) / 5.0)[None, :] + (rng.standard_normal((384, 1)) ** 3) * 20e-6 * np.cos(np.arange(n) / 9.0)[None, :]
    coll = (np.arange(384) // 96) if grouped else None
    kk = {"operator": op}
    if grouped:
        kk["collection"] = coll
    v = []
    for name, fn in (("destripe", lambda: voltage.destripe(x.copy(), fs, h=h, neuropixel_version=_version(tab), k_filter=False, k_kwargs=dict(kk), channel_labels=np.zeros(384))),
                     ("destripe_lfp", None)):
        if fn is None:
            continue
        out = fn()
        groups = [np.arange(384)] if coll is None else [np.flatnonzero(coll == g) for g in np.unique(coll)]
        for gi in groups:
            stat = np.median(out[gi], axis=0) if op == "median" else np.mean(out[gi], axis=0)
            other = np.mean(out[gi], axis=0) if op == "median" else np.median(out[gi], axis=0)
            scale = np.sqrt(np.mean(out[gi] ** 2))
            if np.max(np.abs(stat)) > 1e-9 * scale:
                v.append(("destripe:referencing-operator", "%s %s(k_filter=False, k_kwargs=%r): the %s over the %s channels reaches %.3g after referencing (rms %.3g; the %s is %.3g)"
                          % (tab, name, {k_: ("..." if k_ == "collection" else v_) for k_, v_ in kk.items()}, op, "group" if grouped else "384", float(np.max(np.abs(stat))), scale,
                             "mean" if op == "median" else "median", float(np.max(np.abs(other))))))
                break
    return Res(v, o=(tab, op, grouped), tr=1)


# ------------------------------------------------------------------ (e2) referencing on arrays longer than every internal block size
def carlong_cases(tier, seed):
    from mc import thresholds
    sizes = thresholds.beyond(thresholds.mine([voltage], 4000, 140000), extra=(70001, 196610), cap=300000)
    return [(ns,) for ns in sizes]


def carlong_check(case):
    ns = case[0]
    rng = np.random.default_rng(ns)
    x = rng.standard_normal((9, ns)) * np.arange(1, 10)[:, None] + 3.0
    g = np.array([0, 1, 0, 1, 1, 0, 0, 1, 0])
    v = []
    ntr = 0
    for op in ("median", "average"):
        for coll in (None, g):
            out = voltage.car(x.copy(), collection=None if coll is None else coll.copy(), operator=op)
            ntr += 1
            for grp in ([None] if coll is None else [0, 1]):
                rows = out if grp is None else out[g == grp]
                stat = np.median(rows, axis=0) if op == "median" else np.mean(rows, axis=0)
                bad = np.flatnonzero(np.abs(stat) > 1e-9)
                if out.shape != x.shape or bad.size:
                    v.append(("car:%s:long-array" % op, "car(operator=%s%s) on %d samples: %d sample(s) keep a non-zero %s (first at %d)"
                              % (op, "" if coll is None else ", collection", ns, bad.size, op, bad[0] if bad.size else -1)))
                    break
    return Res(v, o=ns, tr=ntr)


# ------------------------------------------------------------------ (e) referencing, grouping, gain control
def car_cases(tier, seed):
    return [list(a) for a in itertools.product(range(3), repeat=2)]


def car_check(prefix):
    rng = np.random.default_rng([SEED[0] + 19] + list(prefix))
    v = []
    seen = {}
    ntr = 0
    for rest in itertools.product(range(3), repeat=4):
        g = np.array(list(prefix) + list(rest))
        x = rng.standard_normal((6, 9)) * np.arange(1, 7)[:, None] + np.arange(6)[:, None]
        # some channels record nothing (exactly constant: a disconnected site, a zero-filled channel): they belong to their group like any other
        flat = sum(rest) % 4
        if flat == 1:
            x[int(rest[0])] = 0.0
        elif flat == 2:
            x[0], x[5] = 0.0, 2.5
        for op in ("median", "average"):
            out = voltage.car(x.copy(), collection=g.copy(), operator=op)
            ntr += 1
            for grp in np.unique(g):
                rows = out[g == grp]
                stat = np.median(rows, axis=0) if op == "median" else np.mean(rows, axis=0)
                if np.max(np.abs(stat)) > 1e-12:
                    seen.setdefault("car:%s:group-not-zero" % op, "grouping %r operator %s: group %d has %s %r after referencing" % (g.tolist(), op, grp, op, stat.round(4).tolist()[:4]))
                alone = voltage.car(x[g == grp].copy(), operator=op)
                if not np.allclose(rows, alone, rtol=0, atol=1e-12):
                    seen.setdefault("car:%s:group!=alone" % op, "grouping %r operator %s: group %d differs from referencing that group alone" % (g.tolist(), op, grp))
        out = voltage.car(x.copy(), operator="average")
        if np.max(np.abs(np.mean(out, axis=0))) > 1e-12:
            seen.setdefault("car:average", "average referencing leaves a non-zero mean")
        # ... and with the whole option dictionary the destriper hands to its spatial filter (gain-control length, padding, taper, high-pass settings are the k-filter's
        # business: referencing takes them and still leaves a zero median / mean in every group) - the channels here have very different amplitude envelopes
        if sum(rest) % 3 == 0:
            kk = {"ntr_pad": 2, "ntr_tap": 0, "lagc": 3, "butter_kwargs": {"N": 3, "Wn": 0.1, "btype": "highpass"}}
            for op in ("median", "average"):
                try:
                    out = voltage.car(x.copy(), collection=g.copy(), operator=op, **kk)
                except Exception as e:
                    seen.setdefault("car:%s:destripe-options:exc" % op, "car(..., %r) raised %s: %s" % (kk, type(e).__name__, e))
                    continue
                ntr += 1
                plain = voltage.car(x.copy(), collection=g.copy(), operator=op)
                for grp in np.unique(g):
                    rows = out[g == grp]
                    stat = np.median(rows, axis=0) if op == "median" else np.mean(rows, axis=0)
                    if np.max(np.abs(stat)) > 1e-12:
                        seen.setdefault("car:%s:destripe-options:group-not-zero" % op, "grouping %r operator %s with the destriper's option dictionary %r: group %d has %s %r after referencing"
                                        % (g.tolist(), op, kk, grp, op, stat.round(4).tolist()[:4]))
                if not np.allclose(out, plain, rtol=0, atol=1e-12):
                    seen.setdefault("car:%s:destripe-options:differs" % op, "grouping %r operator %s: the result with the destriper's option dictionary differs from plain referencing" % (g.tolist(), op))
    return Res(list(seen.items()), o="car", tr=ntr)


def group_cases(tier, seed):
    out = []
    for fn in ("kfilt", "fk"):
        for split in ("block", "interleave", "pattern"):
            for opt in range(3):
                out.append((fn, split, opt))
    return out


def group_check(case):
    fn, split, opt = case
    nc, n = 40, 300
    rng = np.random.default_rng([SEED[0] + 23, opt])
    x = rng.standard_normal((nc, n)) + np.sin(np.arange(n) / 9.0)[None, :] * 3
    if split == "block":
        g = (np.arange(nc) >= 18).astype(int)
    elif split == "interleave":
        g = np.arange(nc) % 2
    else:
        g = np.array([0, 0, 1, 0, 1, 1, 0, 1] * 5)
    v = []
    if fn == "kfilt":
        kw = [dict(lagc=300, butter_kwargs={"N": 3, "Wn": 0.1, "btype": "highpass"}),
              dict(lagc=25, butter_kwargs={"N": 3, "Wn": 0.1, "btype": "highpass"}),
              dict(lagc=None, butter_kwargs={"N": 2, "Wn": 0.3, "btype": "highpass"})][opt]
        out = voltage.kfilt(x.copy(), collection=g.copy(), **kw)
        for grp in (0, 1):
            alone = voltage.kfilt(x[g == grp].copy(), **kw)
            if not np.allclose(out[g == grp], alone, rtol=0, atol=1e-9):
                what = "lagc" if opt == 1 else ("no-agc" if opt == 2 else "default")
                v.append(("kfilt:group!=alone:%s" % what, "kfilt(collection=%s split, %r): group %d differs from filtering the group alone with the same settings (max %.3g)"
                          % (split, kw, grp, float(np.max(np.abs(out[g == grp] - alone))))))
                break
    else:
        kw = [dict(vbounds=[200, 400], lagc=0.1, btype="highpass"),
              dict(vbounds=[200, 400], lagc=0.1, btype="lowpass"),
              dict(vbounds=[100, 300], lagc=0.05, btype="highpass", kfilt={"bounds": [0.05, 0.1], "btype": "highpass"})][opt]
        out = voltage.fk(x.copy(), si=0.002, dx=1, collection=g.copy(), **kw)
        for grp in (0, 1):
            alone = voltage.fk(x[g == grp].copy(), si=0.002, dx=1, **kw)
            if not np.allclose(out[g == grp], alone, rtol=0, atol=1e-9):
                what = ["default", "btype", "kfilt"][opt]
                v.append(("fk:group!=alone:%s" % what, "fk(collection=%s split, %r): group %d differs from filtering the group alone with the same settings (max %.3g)"
                          % (split, {k: kw[k] for k in kw}, grp, float(np.max(np.abs(out[g == grp] - alone))))))
                break
    return Res(v, o=(fn, opt), tr=3)


def agc_cases(tier, seed):
    return [(wl, si, n) for wl in (0.5, 0.1, 0.02) for si in (0.002, 1 / 2500., 1 / 30000.) for n in (5, 50, 251, 1000, 3001)]


def agc_check(case):
    wl, si, n = case
    rng = np.random.default_rng([SEED[0] + 29, n])
    x = rng.standard_normal((9, n)) * np.array([1e-12, 1e-9, 1e-6, 1e-3, 0.0, 1.0, 1e3, 37.5e-6, 1e-15])[:, None]
    # row 4 is a dead row; rows 0, 1, 8 are tiny but alive
    x0 = x.copy()
    v = []
    try:
        out, gain = voltage.agc(x, wl=wl, si=si)
    except Exception as e:
        return Res([("agc:exc", "agc(wl=%r, si=%r, ns=%d) raised %s: %s" % (wl, si, n, type(e).__name__, e))])
    if out.shape != x0.shape or gain.shape != x0.shape or not np.allclose(out * gain, x0, rtol=1e-9, atol=1e-300):
        rows = np.flatnonzero(~np.all(np.isclose(out * gain, x0, rtol=1e-9, atol=1e-300), axis=1)).tolist() if out.shape == x0.shape else []
        v.append(("agc:product", "agc(wl=%r, si=%r, ns=%d): data x gain differs from the input on rows %r (row amplitudes 1e-12, 1e-9, 1e-6, 1e-3, 0, 1, 1e3, 37.5e-6, 1e-15)" % (wl, si, n, rows)))
    # the whole array scaled down: same law
    for scale in (1e-9, 1e-12):
        y0 = rng.standard_normal((5, n)) * scale
        o2, g2 = voltage.agc(y0.copy(), wl=wl, si=si)
        if not np.allclose(o2 * g2, y0, rtol=1e-9, atol=1e-300):
            v.append(("agc:product:small-amplitude", "agc(wl=%r, si=%r, ns=%d) on data of amplitude %g: data x gain differs from the input" % (wl, si, n, scale)))
            break
    if np.any(gain < 0) or not np.all(np.isfinite(out)):
        v.append(("agc:finite", "agc returns negative gain or non-finite data"))
    # value patterns: constant non-zero rows (railed / stuck channel, DC offset), a constant row with one outlier, a row silent for its first 60 %, the int16 rails, a zero row
    p = np.zeros((8, n))
    p[0], p[1], p[2] = 2.5, -1e-3, 1.0
    p[2, n // 2] = 3.0
    p[3, (6 * n) // 10:] = rng.standard_normal(n - (6 * n) // 10)
    p[4] = np.where(np.arange(n) % 2 == 0, -32768.0, 32767.0)
    p[5] = 32767.0
    p[6] = rng.standard_normal(n)
    p0 = p.copy()
    try:
        o3, g3 = voltage.agc(p, wl=wl, si=si)
        if o3.shape != p0.shape or g3.shape != p0.shape or not np.allclose(o3 * g3, p0, rtol=1e-9, atol=1e-300) or not np.all(np.isfinite(o3)):
            rows = np.flatnonzero(~np.all(np.isclose(o3 * g3, p0, rtol=1e-9, atol=1e-300), axis=1)).tolist() if o3.shape == p0.shape else []
            names = ["constant 2.5", "constant -1e-3", "constant with one outlier", "silent for its first 60 %", "alternating int16 rails", "constant 32767", "noise", "all zero"]
            v.append(("agc:product:value-pattern", "agc(wl=%r, si=%r, ns=%d): data x gain differs from the input on the rows %r" % (wl, si, n, [names[r] for r in rows])))
    except Exception as e:
        v.append(("agc:exc:value-pattern", "agc(wl=%r, si=%r, ns=%d) on constant / partly silent rows raised %s: %s" % (wl, si, n, type(e).__name__, e)))
    return Res(v, o=(n < int(wl / si),), tr=2)


CHECK = {
    "property": "C05",
    "rule": "alignment: every DFT bin below Nyquist x 2 phases x 4 ADC tables; stripes: table x 8 (4) disjoint band-limited pulses x 2 amplitudes x both spatial filters x AP/LF; "
            "spikes: every (4th) depth x 2 tables x both filters; labels: top block sizes x filters; car: all 3^6 groupings x 2 operators; non-trivial = all",
    "assumptions": [
        "the ADC alignment is a linear operator: the below-Nyquist sinusoid basis decides all band-limited periodic stripes; stripes that are not periodic in the window (edge leakage) are not covered",
        "spike and label clauses use fixed seeded backgrounds (VERIF_SEED); thresholds from the property: -40 dB, 0.9",
        "grouped filtering is compared with the same call on each group alone with the same operator / lagc / butter_kwargs / vbounds / btype / kfilt; padding and taper as the recursion sets them (none)",
        "stripes are pulses with a Gaussian envelope centred in the window (quiet edges: no zero-phase filter edge transients), attenuation measured over the whole window; spike: 300 uV model spike 5 um off a site on 8 uV noise",
    ],
    "clauses": [
        Clause("align", "ADC shift correction aligns every sinusoid of the basis", cases=align_cases, check=align_check, setup=_setup),
        Clause("stripes", "destripe / destripe_lfp attenuate common disturbances by >= 40 dB", cases=stripe_cases, check=stripe_check, setup=_setup),
        Clause("spikes", "a local spike keeps >= 90 % of its amplitude at every depth", cases=spike_cases, check=spike_check, setup=_setup),
        Clause("labels", "outside-brain rows are excluded from the spatial filter", cases=label_cases, check=label_check, setup=_setup),
        Clause("labels-anywhere", "outside-brain labels at arbitrary positions: every inside channel is still destriped", cases=_scatter_cases, check=scatter_check, setup=_setup),
        Clause("long-arrays", "arrays around and beyond 65536 samples: bursts at the start, middle and tail are attenuated", cases=long_cases, check=long_check, setup=_setup),
        Clause("destripe-options", "destripe(k_filter=False) with operator median / average, with and without channel groups: zero median / mean per group", cases=dopt_cases, check=dopt_check, setup=_setup),
        Clause("car-long", "referencing on arrays just beyond every size constant mined from ibldsp.voltage (zero median / mean at every sample)", cases=carlong_cases, check=carlong_check, setup=_setup),
        Clause("car", "referencing: zero median/mean per group for all groupings", cases=car_cases, check=car_check, setup=_setup),
        Clause("groups", "kfilt / fk with collections = each group alone with the same settings", cases=group_cases, check=group_check, setup=_setup),
        Clause("agc", "gain control: data x gain = input", cases=agc_cases, check=agc_check, setup=_setup),
        _layouts.make_clause(__import__("checks._layout_specs", fromlist=["x"]).c05()),
    ],
}
