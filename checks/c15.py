"""
C15 - bad-channel repair touches only bad channels; detection finds injected faults.  Engine E1.
"""
import itertools
import os

import numpy as np
import scipy.signal
import scipy.stats

from mc.engine import Clause, Res
from mc import layouts as _layouts
from mc import synth

import neuropixel
import spikeglx
from ibldsp import voltage

SEED = [0]
FS = 30000
NEAR_UM = 75.0      # 'nearby': the kernel exp(-(d/20)^1.3) is below its 0.005 cut beyond ~72 um


def _setup(tier, seed):
    SEED[0] = seed


# ------------------------------------------------------------------ interpolation
def _header(fam):
    if fam == "NP1":
        return neuropixel.trace_header(version=1)
    if fam == "NP2":
        return neuropixel.trace_header(version=2)
    if fam == "NPultra":
        return neuropixel.trace_header(version="NPultra")
    if fam == "NP1-shuffled":
        # a re-ordered channel map: spatial neighbours are far apart in channel index
        hh = neuropixel.trace_header(version=1)
        perm = (np.arange(384) * 67) % 384
        return {k: np.asarray(v)[perm].copy() for k, v in hh.items()}
    return neuropixel.trace_header(version=2, nshank=4)


def interp_cases(tier, seed):
    out = []
    # all 4^6 label vectors on the first six sites: one case per value of the first three labels
    for fam in ("NP1", "NP2"):
        for a in itertools.product(range(4), repeat=3):
            out.append((fam, "first6", list(a)))
    # <= 3 bad channels among the first / last 12 sites, labels 1 or 2 (clusters of adjacent bad channels, probe ends)
    for fam in ("NP1", "NP2", "NP2.4"):
        for end in ("first12", "last12"):
            for k in (1, 2, 3):
                out.append((fam, end, [k]))
    out.append(("NP1", "all-bad", [0]))
    for fam in ("NP1", "NP2", "NP2.4"):
        out.append((fam, "in-outside-block", [0]))
    out.append(("NP1", "geometry-sequence", [0]))
    # clusters of adjacent bad channels of several widths all over the probe, on layouts whose spatial neighbours are not index neighbours too
    for fam in ("NP1", "NP2", "NP2.4", "NPultra", "NP1-shuffled"):
        for width in (1, 4, 12, 24):
            out.append((fam, "clusters", [width]))
    # more bad channels in one call than any block size found in the source (pairs of adjacent dead / noisy channels all along the probe)
    for fam in ("NP1", "NP2.4"):
        out.append((fam, "many-bad", [0]))
    # label vectors without a single good channel: only dead / noisy / outside-brain channels (probe out of the brain, tip entirely bad below an outside block)
    for fam in ("NP1", "NP2", "NP2.4"):
        for rest in (3, 1):
            out.append((fam, "no-good", [rest]))
    return out


def _interp_one(h, labels, datasets, seen, ctx):
    x, y = h["x"], h["y"]
    nc = labels.size
    bad = np.flatnonzero((labels == 1) | (labels == 2))
    ok = np.flatnonzero((labels == 0) | (labels == 3))
    ntr = 0
    datasets = list(datasets)
    if bad.size and ok.size:
        # a non-finite sample on a non-bad channel that is no neighbour of any bad channel must not reach the repaired channels
        dmin = np.min(np.sqrt((x[ok][:, None] - x[bad][None, :]) ** 2 + (y[ok][:, None] - y[bad][None, :]) ** 2), axis=1)
        far = ok[dmin > 2 * NEAR_UM]
        if far.size:
            dn = datasets[-1][1].copy()
            dn[far[0], 3] = np.nan
            dn[far[-1], 5] = np.inf
            datasets.append(("non-finite-far-away", dn))
    for name, data in datasets:
        d0 = data.copy()
        # bad channels carry absurd values: if they leaked into a repaired channel it would leave the range of the good ones
        d0[bad] = 1e9 * (1 + np.arange(bad.size))[:, None]
        out = voltage.interpolate_bad_channels(d0.copy(), channel_labels=labels.copy(), x=x, y=y)
        ntr += 1
        if out.shape != d0.shape:
            seen.setdefault("interp:shape", "%s: output shape %r" % (ctx, out.shape))
            continue
        if not np.array_equal(out[ok], d0[ok], equal_nan=True):
            w = ok[np.flatnonzero(np.any((out[ok] != d0[ok]) & ~(np.isnan(out[ok]) & np.isnan(d0[ok])), axis=1))[0]]
            seen.setdefault("interp:touched-good", "%s data=%s: channel %d (label %d) is not returned bit-identical" % (ctx, name, w, labels[w]))
        for i in bad:
            dist = np.sqrt((x - x[i]) ** 2 + (y - y[i]) ** 2)
            near = ok[dist[ok] <= NEAR_UM]
            row = out[i]
            if near.size == 0:
                if not np.all(row == 0):
                    seen.setdefault("interp:no-neighbour-not-zero", "%s: bad channel %d has no good/outside channel within %g um but is not zeroed" % (ctx, i, NEAR_UM))
                continue
            lo, hi = d0[near].min(axis=0), d0[near].max(axis=0)
            tol = 1e-9 * (np.abs(lo) + np.abs(hi) + 1e-30)
            if np.all(np.isfinite(lo) & np.isfinite(hi)) and not np.all(np.isfinite(row)):
                seen.setdefault("interp:not-finite", "%s data=%s: repaired channel %d holds %d non-finite samples although all non-bad channels within %g um are finite"
                                % (ctx, name, i, int(np.sum(~np.isfinite(row))), NEAR_UM))
                continue
            if np.all(row == 0) and not np.all((lo <= tol) & (hi >= -tol)):
                # zeroed although it has neighbours: only acceptable if all of them are below the kernel cut
                if np.min(dist[near]) < 60:
                    seen.setdefault("interp:zeroed", "%s: bad channel %d is zeroed although non-bad channels lie %.1f um away" % (ctx, i, np.min(dist[near])))
                continue
            if np.any(row < lo - tol) or np.any(row > hi + tol):
                t = int(np.argmax((row < lo - tol) | (row > hi + tol)))
                tag = ":constant-not-preserved" if name == "constant" else ""
                seen.setdefault("interp:not-convex" + tag, "%s data=%s: repaired channel %d = %r at sample %d, outside the range [%r, %r] of the non-bad channels within %g um "
                                "(a convex combination stays inside)" % (ctx, name, i, row[t], t, lo[t], hi[t], NEAR_UM))
    return ntr


def _datasets(nc, key):
    rng = np.random.default_rng([SEED[0] + 31, key])
    ns = 12
    return [("constant", np.full((nc, ns), 3.5)),
            ("ramp", np.tile((np.arange(nc) * 0.01 - 1.0)[:, None], (1, ns)) + np.arange(ns)[None, :] * 1e-3),
            ("seeded", rng.standard_normal((nc, ns)) * 50e-6)]


def interp_check(case):
    fam, mode, par = case
    h = _header(fam)
    nc = 384
    seen = {}
    ntr = 0
    data = _datasets(nc, len(par) + 7 * (mode == "last12"))
    if mode == "first6":
        for rest in itertools.product(range(4), repeat=3):
            labels = np.zeros(nc)
            labels[:6] = par + list(rest)
            ntr += _interp_one(h, labels, data, seen, "%s labels[:6]=%r" % (fam, labels[:6].astype(int).tolist()))
    elif mode in ("first12", "last12"):
        k = par[0]
        idx = list(range(12)) if mode == "first12" else list(range(nc - 12, nc))
        for pos in itertools.combinations(idx, k):
            for labs in itertools.product((1, 2), repeat=k):
                labels = np.zeros(nc)
                labels[list(pos)] = labs
                if mode == "last12":
                    labels[nc - 14:nc - 12] = 3          # outside-brain channels next to them may contribute
                ntr += _interp_one(h, labels, data, seen, "%s bad=%r labels=%r" % (fam, pos, labs))
    elif mode == "geometry-sequence":
        # the same label vectors on NP1, then NP2.4, then NP1 in reversed channel order, then a sparse layout, then NP1 again - in one process
        hs = [("NP1", _header("NP1")), ("NP2.4", _header("NP2.4")),
              ("NP1 reversed", {k: np.asarray(v)[::-1].copy() for k, v in _header("NP1").items()}),
              ("sparse 100 um", dict(_header("NP1"), x=np.zeros(384), y=np.arange(384) * 100.0)), ("NP1", _header("NP1"))]
        for labs in ([(5, 1)], [(100, 2), (101, 1)], [(0, 1), (383, 2), (200, 1)]):
            labels = np.zeros(nc)
            for pos, lab in labs:
                labels[pos] = lab
            for name, hh in hs:
                ntr += _interp_one(hh, labels, data, seen, "%s (after other geometries with the same labels) bad=%r" % (name, labs))
    elif mode == "clusters":
        w = par[0]
        for start in (0, 30, 44, 47, 48, 90, 96, 143, 190, 250, 336, nc - w - 1, nc - w):
            labels = np.zeros(nc)
            labels[start:start + w] = 1
            ntr += _interp_one(h, labels, data[:2], seen, "%s cluster of %d bad channels from channel %d" % (fam, w, start))
    elif mode == "many-bad":
        from mc import thresholds
        counts = thresholds.beyond(thresholds.mine([voltage], 8, 300), extra=(33, 41, 65, 130), cap=190)
        for nbad in sorted(set(counts)):
            labels = np.zeros(nc)
            pos = 2
            k = 0
            while k < nbad and pos < nc - 2:
                labels[pos] = 1 + (k % 2)
                k += 1
                if k % 2 == 0:
                    pos += 4          # next pair after three good channels
                else:
                    pos += 1          # its adjacent partner
            ntr += _interp_one(h, labels, data, seen, "%s %d bad channels in adjacent dead/noisy pairs" % (fam, int((labels > 0).sum())))
    elif mode == "no-good":
        rest = par[0]
        for first in itertools.product((1, 2, 3), repeat=6):
            labels = np.full(nc, float(rest))
            labels[:6] = first
            ntr += _interp_one(h, labels, data[:2], seen, "%s no good channel: labels[:6]=%r, all others %d" % (fam, list(first), rest))
        for split in (8, 96, 300, 376):
            labels = np.full(nc, 3.0)
            labels[:split] = 1 + (np.arange(split) % 2)
            ntr += _interp_one(h, labels, data[:2], seen, "%s channels 0..%d dead/noisy, all above outside the brain" % (fam, split - 1))
    elif mode == "in-outside-block":
        # dead / noisy channels whose only neighbours within reach are labelled outside the brain: they must be rebuilt from them
        for pos in range(nc - 14, nc - 5):
            for lab in (1, 2):
                labels = np.zeros(nc)
                labels[nc - 24:] = 3
                labels[pos] = lab
                ntr += _interp_one(h, labels, data, seen, "%s top block of 24 outside channels, bad=%d label=%d" % (fam, pos, lab))
    else:
        labels = np.ones(nc)
        ntr += _interp_one(h, labels, data, seen, "%s all channels bad" % fam)
        labels = np.zeros(nc)
        labels[100:140] = 2          # a bad channel in the middle of a 40-channel bad block has no good neighbour
        ntr += _interp_one(h, labels, data, seen, "%s 40-channel bad block" % fam)
    return Res(list(seen.items()), o=(fam, mode), tr=ntr)


# ------------------------------------------------------------------ detection
_BG = {}


def background(ns=9000, nc=384, seed=0):
    """
    coherent background: a common broadband component (band-limited below 9 kHz so that nothing sits above 80 % of Nyquist)
    with a smooth depth gain, plus weaker independent band-limited noise.  Volts.
    """
    key = (ns, nc, seed)
    if key in _BG:
        return _BG[key]
    rng = np.random.default_rng([seed + 101, ns])
    sos = scipy.signal.butter(8, 9000 / (FS / 2), btype="lowpass", output="sos")
    common = scipy.signal.sosfiltfilt(sos, rng.standard_normal(ns + 2000))[1000:-1000]
    common = common / common.std() * 40e-6
    gain = 1.0 + 0.15 * np.sin(np.arange(nc) / nc * 2 * np.pi * 1.5)
    indep = scipy.signal.sosfiltfilt(sos, rng.standard_normal((nc, ns + 2000)), axis=1)[:, 1000:-1000]
    indep = indep / indep.std() * 8e-6
    bg = gain[:, None] * common[None, :] + indep
    _BG[key] = (bg, common, gain, indep)
    return _BG[key]


def detect_cases(tier, seed):
    out = [("clean", 0, 0)]
    for pos in range(384):
        out.append(("silent", pos, 0))
        out.append(("noisy", pos, 0))
    for k in range(0, 41):
        out.append(("outside", k, 0))
    if tier == "thorough":
        for k in (1, 5, 20):
            for pos in range(7, 340, 7):
                out.append(("outside+silent", k, pos))
    return out


def detect_check(case):
    kind, a, b = case
    bg, common, gain, indep = background(seed=SEED[0])
    nc, ns = bg.shape
    raw = bg.copy()
    exp = np.zeros(nc)
    rng = np.random.default_rng([SEED[0] + 5, a, b])
    amb = set()
    if kind == "silent":
        raw[a] = 0.0
        exp[a] = 1
    elif kind == "noisy":
        raw[a] = raw[a] + 150e-6 * rng.standard_normal(ns)
        exp[a] = 2
    elif kind in ("outside", "outside+silent"):
        if a > 0:
            raw[nc - a:] = indep[nc - a:]          # top block lacking the common signal
            exp[nc - a:] = 3
        if kind == "outside+silent":
            raw[b] = 0.0
            exp[b] = 1
    # the sampling rate as recordings carry it: nominal, or the calibrated AP rate a little below / above it (imSampRate after clock calibration)
    fs_arg = (FS, 29999.954, 30000.268421, float(FS))[(a + b) % 4]
    labels, _ = voltage.detect_bad_channels(raw, fs_arg)
    labels = np.asarray(labels)
    v = []
    if kind == "silent" and a == nc - 1:
        # a silent last channel *is* a top block of one channel lacking the common signal: dead or outside are both right
        if labels[a] not in (1, 3) or np.any(np.delete(labels, a) != 0):
            v.append(("detect:silent@last", "silent channel %d labelled %r, others %r" % (a, labels[a], np.flatnonzero(np.delete(labels, a)).tolist())))
        return Res(v, o=kind)
    if not np.array_equal(labels, exp):
        diff = np.flatnonzero(labels != exp)
        if kind == "silent":
            key = "detect:silent@channel=%d" % a if a in (0,) else "detect:silent"
        elif kind == "noisy":
            key = "detect:noisy"
        elif kind == "clean":
            key = "detect:clean"
        else:
            key = "detect:%s" % kind
        v.append((key, "%s(%r,%r) at fs=%r: labels differ from the injected ones at channels %r: got %r, expected %r"
                  % (kind, a, b, fs_arg, diff[:8].tolist(), labels[diff[:8]].astype(int).tolist(), exp[diff[:8]].astype(int).tolist())))
    return Res(v, o=(kind, (a + b) % 4), nt=kind != "clean")


# ------------------------------------------------------------------ labels from a file = per-channel mode over its batches
def file_cases(tier, seed):
    # variant 3: a file whose last three batches are blank (zero padded stretch) - blank batches vote like any other batch
    # variant 4: a recording shorter than batches x duration (1.2 s for 10 batches of 0.3 s): the batches overlap, each of them still votes
    return [("bin", 0), ("cbin", 1), ("bin", 3), ("bin", 4)] if tier == "quick" else [("bin", 0), ("cbin", 1), ("bin", 2), ("bin", 3), ("cbin", 3), ("bin", 4), ("cbin", 4)]


def file_check(case):
    suffix, variant = case
    d = synth.proc_scratch(clean=True)
    nb, bd = (7, 0.3) if variant < 3 else (10, 0.3)
    ns = int(round(nb * bd * FS))          # the batches tile the file without overlap
    if variant == 4:
        ns = int(1.2 * FS)
    bg, common, gain, indep = background(ns=ns, seed=SEED[0] + variant)
    raw = bg.copy()
    nc = raw.shape[0]
    rl = ns / FS
    starts = [int(t0 * FS) for t0 in np.linspace(0, rl - bd, nb)]
    # faults present in only some of the ten batches
    plan = {50: (1, 4), 120: (1, 3), 200: (2, 5), 300: (2, 2), 10: (1, 7)}
    mixed = {250: ((1, 2), (2, 2))}          # 3 clean, 2 dead, 2 noisy batches: the mode is 0 (the median would be 1)
    if variant == 4:
        plan, mixed = {101: (1, nb), 200: (2, nb)}, {}          # faulty throughout the short file
    rng = np.random.default_rng(variant)
    for ch, (lab, nbat) in plan.items():
        for bi in range(nbat):
            sl = slice(starts[bi], starts[bi] + int(bd * FS))
            if lab == 1:
                raw[ch, sl] = 0
            else:
                raw[ch, sl] += 150e-6 * rng.standard_normal(sl.stop - sl.start)
    # faults present in a slim majority of batches that INCLUDES the last one (a channel that dies part-way through the recording)
    plan_end = {60: (1, nb // 2 + 1), 330: (2, nb // 2 + 1)} if variant in (0, 1, 2) else {}
    for ch, (lab, nbat) in plan_end.items():
        for bi in range(nb - nbat, nb):
            sl = slice(starts[bi], starts[bi] + int(bd * FS))
            if lab == 1:
                raw[ch, sl] = 0
            else:
                raw[ch, sl] += 150e-6 * rng.standard_normal(sl.stop - sl.start)
    # a moderately noisy channel (60 uV rms of broadband noise, far above the AP-band criterion, below what an LF-band criterion would ask for) in most batches
    for bi in range(0, nb // 2 + 2):
        sl = slice(starts[bi], starts[bi] + int(bd * FS))
        raw[150, sl] += 60e-6 * rng.standard_normal(sl.stop - sl.start)
    for ch, parts in mixed.items():
        bi = 0
        for lab, nbat in parts:
            for _ in range(nbat):
                sl = slice(starts[bi], starts[bi] + int(bd * FS))
                if lab == 1:
                    raw[ch, sl] = 0
                else:
                    raw[ch, sl] += 150e-6 * rng.standard_normal(sl.stop - sl.start)
                bi += 1
    if variant == 3:
        sl = slice(starts[0], starts[0] + 4 * int(bd * FS))
        raw[100, sl] = 0                       # silent in 4 of the 7 recorded batches ...
        raw[:, starts[7]:] = 0                 # ... and the last three batches of the file are blank
    # non overlapping batches are needed for the plan to be exact: check
    # per-channel gains as the IMRO table carries them (mixed on odd variants: a few channels recorded at another gain hold the same voltages)
    gains = [(500, 250)] * nc
    if variant % 2:
        for ch in (120, 121, 122):
            gains[ch] = (125, 250)
        for ch in (220, 221):
            gains[ch] = (2000, 250)
    s2v = np.array([0.6 / 512 / g[0] for g in gains])
    ints = np.clip(np.round(raw / s2v[:, None]), -32768, 32767).astype(np.int16)
    data = np.concatenate([ints.T, np.zeros((ns, 1), dtype=np.int16)], axis=1)
    sites = list(zip(neuropixel.trace_header(1)["shank"].astype(int).tolist(), neuropixel.trace_header(1)["row"].astype(int).tolist(),
                     neuropixel.trace_header(1)["col"].astype(int).tolist()))
    # the folder name is the user's: band names and dots in it (odd variants) say nothing about the file
    if variant % 2:
        d = os.path.join(d, "session_001.lf.extraction", "raw.ap.lf_data")
        os.makedirs(d, exist_ok=True)
    fbin = synth.write_recording(d, "det_g0_t0.imec0.ap", data, synth.meta_items("3B2", sites, ns, gains=gains, encoding="geom" if variant % 2 else "shank"))
    if suffix == "cbin":
        sr0 = spikeglx.Reader(fbin)
        sr0.compress_file(keep_original=False, n_threads=1, quiet=True, check_after_compress=False)
        sr0.close()
        fbin = fbin.replace(".bin", ".cbin")
    sr = spikeglx.Reader(fbin)
    v = []
    try:
        got = np.asarray(voltage.detect_bad_channels_cbin(sr, n_batches=nb, batch_duration=bd)).ravel()
        per = np.zeros((nc, nb))
        for i, t0 in enumerate(np.linspace(0, sr.rl - bd, nb)):
            sl = slice(int(t0 * sr.fs), int((t0 + bd) * sr.fs))
            per[:, i], _ = voltage.detect_bad_channels(sr[sl, :nc].T, fs=sr.fs)
        exp = scipy.stats.mode(per, axis=1)[0].ravel()
        # the mode is only unambiguous when one label has a strict majority among the distinct counts: compare there
        cnt = np.stack([(per == lab).sum(axis=1) for lab in range(4)], axis=1)
        srt = np.sort(cnt, axis=1)
        clear = srt[:, -1] > srt[:, -2]
        if got.shape != (nc,) or np.any(got[clear] != exp[clear]):
            bad = np.flatnonzero(got[clear] != exp[clear]) if got.shape == (nc,) else []
            v.append(("detect-file:mode", "labels from the file differ from the per-channel mode over the %d batches at channels %r" % (nb, np.flatnonzero(clear)[bad][:6].tolist())))
        # and the plan: majority faults are reported, minority ones are not
        if got.shape == (nc,) and clear[250] and got[250] != 0 and variant != 4:
            v.append(("detect-file:plan", "channel 250 clean in 3, dead in 2 and noisy in 2 of 7 batches is labelled %r (mode is 0)" % got[250]))
        # ... and the channels nothing was done to stay clear (away from the probe ends, see the known finding for channel 0)
        touched = set(plan) | set(plan_end) | set(mixed) | {150}
        quiet = np.array([c for c in range(5, nc - 5) if c not in touched and (variant != 3 or c != 100)])
        if got.shape == (nc,) and np.any(got[quiet] != 0):
            w = quiet[np.flatnonzero(got[quiet] != 0)]
            v.append(("detect-file:clean-channel-flagged", "channels %r carry the same coherent background as their neighbours (nothing injected) but are labelled %r"
                      % (w[:6].tolist(), got[w[:6]].tolist())))
        for ch, (lab, nbat) in list(plan.items()) + list(plan_end.items()):
            want = lab if nbat > nb / 2 else 0
            if got.shape == (nc,) and got[ch] != want and clear[ch]:
                v.append(("detect-file:plan", "channel %d faulty (label %d) in %d of %d batches is labelled %r" % (ch, lab, nbat, nb, got[ch])))
    finally:
        sr.close()
    return Res(v, o=suffix, tr=nb + 1)


CHECK = {
    "property": "C15",
    "rule": "interpolation: every label vector in {0,1,2,3}^6 on the first six sites and every <=3-subset x {dead,noisy} labelling of the first/last 12 sites; "
            "detection: every fault position 0..383 x {silent, noisy}, every top-block size 0..40; non-trivial = at least one bad channel / fault",
    "assumptions": [
        "'nearby' = within 75 um (the interpolation kernel exp(-(d/20um)^1.3) is cut at 0.005, i.e. ~72 um); the convex-combination claim is checked as "
        "'within [min,max] of the non-bad channels within 75 um at every sample' with bad channels carrying absurd values, on constant, ramp and seeded data",
        "detection background is a fixed seeded recipe (common band-limited component with smooth depth gain + weaker independent noise, AP band, 0.3 s); VERIF_SEED rotates it",
        "a silent channel at the last index is the same recording as a one-channel top block without common signal: label 1 or 3 accepted there",
        "file-level labels are compared with the mode where the mode is unique (no ties)",
    ],
    "clauses": [
        Clause("interpolate", "interpolate_bad_channels on every label vector / cluster", cases=interp_cases, check=interp_check, setup=_setup),
        Clause("detect", "detect_bad_channels finds every injected fault and nothing else", cases=detect_cases, check=detect_check, setup=_setup),
        Clause("detect-file", "detect_bad_channels_cbin = per-channel mode over batches", cases=file_cases, check=file_check, setup=_setup),
        _layouts.make_clause(__import__("checks._layout_specs", fromlist=["x"]).c15()),
    ],
}
