"""
C06 - chunked destripe-to-file writes every sample exactly once, for any worker count.  Engines E3 + E1.

The real decompress_destripe_cbin runs with joblib.Parallel replaced by the controlled scheduler of mc.sched: the
worker bodies run as baton-passing threads with a scheduling point before every write to a shared file.  For every
configuration (recording length x batch size x options) and worker count, every Mazurkiewicz trace of the recorded
footprint is executed and the artefacts are compared with the one-worker run and with an in-memory reference.
"""
import builtins
import copy
import os
import shutil
import sys
from pathlib import Path

import numpy as np
import scipy.signal

from mc.engine import Clause, Res, HarnessError
from mc import synth, sched

SHIM = os.path.join(os.path.dirname(os.path.dirname(os.path.abspath(__file__))), "shims")
try:
    import pyfftw  # noqa
    HAVE_PYFFTW = not os.path.realpath(pyfftw.__file__).startswith(os.path.realpath(SHIM))
except ImportError:
    HAVE_PYFFTW = False
    sys.path.insert(0, SHIM)

import spikeglx  # noqa
from ibldsp import voltage, fourier  # noqa

TAPER = 1024
SEED = [0]


def _setup(tier, seed):
    SEED[0] = seed


# ------------------------------------------------------------------ seams
class Seams(object):
    def __init__(self, schedule=None, labels=None):
        self.sched = sched.Scheduler()
        self.schedule = schedule
        self.ntasks = None
        self.labels = labels
        self.saved = {}

    def __enter__(self):
        import joblib
        me = self
        s = self.sched
        self.patched = []

        def delayed(fn):
            return lambda *a, **k: (fn, a, k)

        class Parallel(object):
            def __init__(self, *a, **k):
                pass

            def __enter__(self):
                return self

            def __exit__(self, *a):
                return False

            def __call__(self, tasks):
                tasks = list(tasks)
                me.ntasks = len(tasks)
                res = s.run(tasks, me.schedule)
                for w in s.workers:
                    if w.exc is not None:
                        raise w.exc
                return res

        def my_open(path, mode="r", *a, **k):
            f = builtins.open(path, mode, *a, **k)
            if s.current() is not None and "+" in mode:
                return sched.FileProxy(f, s, os.path.basename(str(path)), str(path))
            return f

        real_load = np.load

        def my_load(file, mmap_mode=None, *a, **k):
            out = real_load(file, mmap_mode=mmap_mode, *a, **k)
            if s.current() is not None and mmap_mode == "r+":
                return sched.MemProxy(out, s, os.path.basename(str(file)))
            return out
        self.real_load = real_load
        # joblib's Parallel / delayed wherever the library refers to them: attributes of ibldsp.voltage that ARE these objects, and the joblib module
        # itself (a call written joblib.Parallel(...) looks the name up there)
        targets = {id(joblib.Parallel): Parallel, id(joblib.delayed): delayed}
        holders = [voltage, joblib]
        try:
            import joblib.parallel as jp
            holders.append(jp)
        except Exception:
            pass
        for mod in holders:
            for name, val in list(vars(mod).items()):
                if id(val) in targets:
                    self.patched.append((mod, name, val))
                    setattr(mod, name, targets[id(val)])
        voltage.open = my_open
        np.load = my_load
        if self.labels is not None:
            self.saved["detect_bad_channels_cbin"] = voltage.detect_bad_channels_cbin
            voltage.detect_bad_channels_cbin = lambda *a, **k: np.array(self.labels, dtype=float)
        return self

    def __exit__(self, *a):
        for mod, name, val in self.patched:
            setattr(mod, name, val)
        if "detect_bad_channels_cbin" in self.saved:
            voltage.detect_bad_channels_cbin = self.saved["detect_bad_channels_cbin"]
        del voltage.open
        np.load = self.real_load


# ------------------------------------------------------------------ recordings
def recording(d, cfg):
    nsites, ns, N = cfg["nsites"], cfg["ns"], cfg["nbatch"]
    rng = np.random.default_rng([SEED[0] + 41, ns, N])
    sites = [(0, i // 2, i % 2) for i in range(nsites)]
    walk = np.cumsum(rng.integers(-30, 31, size=(ns, nsites)), axis=0)
    data = np.zeros((ns, nsites + 1), dtype=np.int64)
    data[:, :nsites] = np.clip(walk - walk.mean(axis=0).astype(np.int64), -3000, 3000) + rng.integers(-40, 41, size=(ns, nsites))
    # saturated stretches on, before and after the batch seams; slew events at a batch's last sample
    S = N - 2 * TAPER
    for pos in (S + TAPER - 3, N - 10, N + 5, 2 * S + TAPER, ns - 40, 700):
        if 0 < pos < ns - 30:
            data[pos:pos + 12, :nsites] = 8190 * (1 if pos % 2 else -1)
    for pos in (N - 1, N + S - 1):
        if 0 < pos < ns - 2:
            data[pos + 1:, :nsites] += 900          # a big step right after a batch's last sample
    data[:, :nsites] = np.clip(data[:, :nsites], -8191, 8191)
    data[:, nsites] = (np.arange(ns, dtype=np.int64) * 40503 + 12345) % 65536 - 32768
    data = data.astype(np.int16)
    fbin = synth.write_recording(d, "ds_g0_t0.imec0.ap", data, synth.meta_items("NP2.1", sites, ns, **({"fs": cfg["fs"]} if cfg.get("fs") else {})))
    if cfg.get("cbin"):
        sr = spikeglx.Reader(fbin)
        sr.compress_file(keep_original=False)
        sr.close()
        fbin = fbin.replace(".bin", ".cbin")
    return fbin, data


def options(cfg):
    nsites = cfg["nsites"]
    kw = dict(nbatch=cfg["nbatch"], compute_rms=True, reject_channels=False, k_filter=cfg.get("k_filter", False), ns2add=cfg.get("ns2add", 0))
    pad = 4 if nsites >= 16 else 0
    kw["k_kwargs"] = {"ntr_pad": pad, "ntr_tap": 0, "lagc": 3000 if cfg.get("k_filter") else None,
                      "butter_kwargs": {"N": 3, "Wn": 0.04 if cfg.get("k_filter") else 0.1, "btype": "highpass"}}        # not the k-filter's own default corner
    if cfg.get("wrot") == "identity":
        kw["wrot"] = np.eye(nsites)
    elif cfg.get("wrot") == "2I":
        kw["wrot"] = 2 * np.eye(nsites)
    elif cfg.get("wrot") == "cyclic":
        kw["wrot"] = np.roll(np.eye(nsites), 1, axis=1)                     # a non-symmetric permutation
    elif cfg.get("wrot") == "scalar":
        kw["wrot"] = 0.5                                                    # one whitening amplitude for all channels
    elif cfg.get("wrot") == "numpy-scalar":
        kw["wrot"] = np.float32(2.0)
    elif cfg.get("wrot") == "triangular":
        kw["wrot"] = np.eye(nsites) + 0.5 * np.eye(nsites, k=1)             # upper bidiagonal
    if cfg.get("h_shift"):
        kw["h"] = _custom_header(nsites, cfg["h_shift"])
    if cfg.get("nc_out"):
        kw["nc_out"] = cfg["nc_out"]
    if cfg.get("reject"):
        kw["reject_channels"] = True
    if cfg.get("no_rms"):
        kw["compute_rms"] = False
    if cfg.get("float32"):
        kw["dtype"] = np.float32
    return kw


def _custom_header(nsites, kind):
    """a header handed over explicitly: same sites, other sampling delays"""
    x = np.array([27.0 + 32 * (i % 2) for i in range(nsites)])
    y = np.array([20.0 + 15 * (i // 2) for i in range(nsites)])
    if kind == "thirteenths":
        sh = (np.arange(nsites) % 12) / 13.0
    else:
        sh = ((np.arange(nsites) * 5) % 16) / 16.0
    return {"x": x, "y": y, "sample_shift": sh, "col": np.arange(nsites) % 2, "row": np.arange(nsites) // 2, "shank": np.zeros(nsites)}


def execute(fbin, outdir, cfg, p, schedule=None, append_runs=1):
    """runs the real function under the scheduler; returns (artefacts, scheduler, exception)"""
    shutil.rmtree(outdir, ignore_errors=True)
    os.makedirs(outdir)
    out = Path(outdir) / "out.bin"
    kw = options(cfg)
    if cfg.get("stale"):
        # the output folder still holds the (longer) files of an earlier run: a run without append replaces them
        junk = (np.arange(4 * (cfg["ns"] + 777) * (cfg["nsites"] + 1), dtype=np.int64) % 251).astype(np.uint8)
        junk.tofile(str(out))
        junk[:4000].tofile(os.path.join(outdir, "ap_rms.bin"))
        junk[:4000].tofile(os.path.join(outdir, "ap_time.bin"))
        np.save(os.path.join(outdir, "_iblqc_ephysSaturation.samples.npy"), np.ones(cfg["ns"] + 777, dtype=bool))
    labels = cfg.get("labels") if cfg.get("reject") else None
    sm = None
    exc = None
    for run in range(append_runs):
        with Seams(schedule=schedule if run == append_runs - 1 else None, labels=labels) as sm:
            try:
                voltage.decompress_destripe_cbin(Path(fbin), output_file=out, nprocesses=p, append=(run > 0), **kw)
            except HarnessError:
                raise
            except BaseException as e:       # noqa
                exc = e
        if exc is not None:
            break
    art = {}
    for name in ("out.bin", "ap_rms.bin", "ap_time.bin"):
        f = os.path.join(outdir, name)
        art[name] = open(f, "rb").read() if os.path.exists(f) else None
    fs = os.path.join(outdir, "_iblqc_ephysSaturation.samples.npy")
    art["saturation"] = np.load(fs) if os.path.exists(fs) else None
    sm.sched.bypassed = sm.ntasks is None          # the work was not handed to joblib (e.g. one worker called directly): results only, no schedule control
    return art, sm.sched, exc


# ------------------------------------------------------------------ in-memory reference
def reference(fbin, cfg, data):
    """batch-wise in-memory destriping with the documented margins, from the library's own building blocks"""
    N = cfg["nbatch"]
    kw = options(cfg)
    sr = spikeglx.Reader(fbin)
    h = kw.get("h") or sr.geometry
    ncv = h["sample_shift"].size
    ns, nc = sr.ns, sr.nc
    nc_out = kw.get("nc_out") or nc
    if kw["k_filter"]:
        spatial = lambda dat: voltage.kfilt(dat, **copy.deepcopy(kw["k_kwargs"]))  # noqa   (a fresh copy of the settings for every batch)
    else:
        spatial = lambda dat: voltage.car(dat, **copy.deepcopy(kw["k_kwargs"]))  # noqa
    sos = scipy.signal.butter(N=3, Wn=300 / sr.fs * 2, btype="highpass", output="sos")
    taper = np.r_[0, scipy.signal.windows.cosine((TAPER - 1) * 2), 0]
    out = np.zeros((ns, nc_out), dtype=np.float64)
    labels = np.array(cfg["labels"], dtype=float) if cfg.get("reject") else None
    first = 0
    nbatches = 0
    while True:
        last = min(first + N, ns)
        chunk = sr[first:last, :ncv].T.astype(np.float64)
        _, mute = voltage.saturation(chunk, max_voltage=sr.range_volts[:ncv], fs=sr.fs)
        chunk[:, :TAPER] *= taper[:TAPER]
        chunk[:, -TAPER:] *= taper[TAPER:]
        chunk = scipy.signal.sosfiltfilt(sos, chunk)
        chunk = fourier.fshift(chunk, h["sample_shift"], axis=1)
        if labels is not None:
            chunk = voltage.interpolate_bad_channels(chunk, labels, h["x"], h["y"])
            inside = np.where(labels != 3)[0]
            chunk[inside, :] = spatial(chunk[inside, :])
        else:
            chunk = spatial(chunk)
        chunk = chunk * mute[None, :]
        lo = 0 if first == 0 else TAPER
        hi = (last - first) if last == ns else N - TAPER
        vals = chunk[:, lo:hi].T / np.asarray(sr.sample2volts)[None, :ncv]
        if "wrot" in kw:
            vals = vals @ kw["wrot"] if np.ndim(kw["wrot"]) else vals * float(kw["wrot"])
        full = np.concatenate([vals, data[first + lo:first + hi, ncv:].astype(np.float64)], axis=1)
        out[first + lo:first + hi, :] = full[:, :nc_out]
        nbatches += 1
        if last == ns:
            break
        first += N - 2 * TAPER
    sync = np.array(data[:, ncv:])
    sr.close()
    return out, sync, nbatches, ncv


# ------------------------------------------------------------------ the check of one configuration
def config_cases(tier, seed):
    cases = []
    pmax = 5 if tier == "quick" else 8
    for N in ((2560, 3072, 4096) if tier == "quick" else (2560, 3072, 4096, 6556)):
        S = N - 2 * TAPER
        nss = [N + 1, N + S - 1, N + S, N + S + 1, N + 2 * S - 1, N + 2 * S, N + 2 * S + 7, 2 * N, 2 * N + S + 1, 3 * N + 5, 4 * N]
        if tier == "thorough":
            nss += list(range(N + 1, 4 * N, 397)) + [N + 2 * S - 1, N + 2 * S, N + 3 * S + 1, 5000 if N == 4096 else N + 11]
        for ns in sorted(set(nss)):
            cases.append(dict(nsites=4, ns=ns, nbatch=N, pmax=pmax))
    # option variants
    base = dict(nsites=4, ns=2 * 4096 + 333, nbatch=4096, pmax=3)
    cases += [dict(base, ns2add=100), dict(base, wrot="identity"), dict(base, wrot="2I"), dict(base, nc_out=4), dict(base, append=True),
              dict(base, reject=True, labels=[0, 1, 0, 0]), dict(base, reject=True, labels=[0, 0, 2, 3]), dict(base, cbin=True),
              dict(nsites=16, ns=2 * 4096 + 333, nbatch=4096, pmax=3, k_filter=True),
              dict(nsites=16, ns=3 * 2560 + 100, nbatch=2560, pmax=3, k_filter=True, reject=True, labels=[0] * 12 + [1, 0, 3, 3]),
              # many workers on a short recording: a worker's first batch would lie past the last one
              dict(nsites=4, ns=5000, nbatch=4096, pmax=6), dict(nsites=4, ns=2560 + 700, nbatch=2560, pmax=6),
              dict(base, stale=True), dict(base, stale=True, ns2add=50, float32=True),
              dict(base, no_rms=True), dict(base, float32=True), dict(base, float32=True, ns2add=33, wrot="2I"),
              dict(base, wrot="cyclic"), dict(base, wrot="triangular", nc_out=4), dict(base, wrot="scalar"), dict(base, wrot="numpy-scalar", ns2add=20),
              # recordings at other sampling rates than the usual 30 kHz (the slew-rate criterion and the filters follow the file's rate)
              dict(base, fs=2500), dict(base, fs=20000.5, wrot="2I"), dict(base, fs=30000.268421),
              # two runs in one process whose headers differ only by their sampling delays (same channel count and batch size)
              dict(base, h_shift="thirteenths", then=dict(base, h_shift="other")), dict(base, then=dict(base, h_shift="thirteenths")),
              # recordings not longer than one batch
              dict(nsites=4, ns=4096, nbatch=4096, pmax=3), dict(nsites=4, ns=3000, nbatch=4096, pmax=4), dict(nsites=4, ns=2049, nbatch=2560, pmax=2),
              dict(base, append=True, ns=4096 + 2048 + 1), dict(nsites=4, ns=3 * 2560, nbatch=2560, pmax=4, append=True, ns2add=7)]
    return cases


def config_check(cfg):
    if cfg.get("then"):
        first = {k: v for k, v in cfg.items() if k != "then"}
        r1 = _config_check(first)
        r2 = _config_check(dict(cfg["then"], pmax=2))
        v = list(r1.v) + [(k + ":second-call-in-process", "after a run with another header in the same process: " + m) for k, m in r2.v]
        return Res(v, o=("then",) + tuple(r1.o), tr=r1.tr + r2.tr, x=r1.x, s=r1.s)
    return _config_check(cfg)


def _config_check(cfg):
    d = os.path.join(synth.proc_scratch(), "c06")
    shutil.rmtree(d, ignore_errors=True)
    os.makedirs(d)
    fbin, data = recording(d, cfg)
    seen = {}
    ntr = 0
    ctx0 = "ns=%d NBATCH=%d %s" % (cfg["ns"], cfg["nbatch"], {k: v for k, v in cfg.items() if k not in ("ns", "nbatch", "pmax", "nsites")} or "")
    N, ns = cfg["nbatch"], cfg["ns"]
    nc = cfg["nsites"] + 1
    nc_out = cfg.get("nc_out") or nc
    runs = 2 if cfg.get("append") else 1
    # ---- one worker: the baseline
    isz = 4 if cfg.get("float32") else 2
    odt = np.float32 if cfg.get("float32") else np.int16
    art1, s1, exc1 = execute(fbin, os.path.join(d, "o1"), cfg, 1, append_runs=runs)
    ntr += 1
    if exc1 is not None:
        return Res([("p1:exc:%s" % type(exc1).__name__, "%s with one worker raised %s: %s" % (ctx0, type(exc1).__name__, exc1))], o="exc")
    ref, sync, nbatches, ncv = reference(fbin, cfg, data)
    out1 = np.frombuffer(art1["out.bin"], dtype=odt)
    exp_len = (ns + cfg.get("ns2add", 0)) * nc_out * runs
    if out1.size != exp_len:
        seen.setdefault("size", "%s: output holds %d values = %.2f samples of %d channels, expected %d samples"
                        % (ctx0, out1.size, out1.size / nc_out, nc_out, (ns + cfg.get("ns2add", 0)) * runs))
    else:
        o = out1.reshape(-1, nc_out)
        per_run = ns + cfg.get("ns2add", 0)
        if runs == 2 and not np.array_equal(o[:per_run], o[per_run:]):
            seen.setdefault("append", "%s: append mode does not concatenate two identical runs" % ctx0)
        first_run = o[:per_run]
        o = first_run[:ns]
        if nc_out > ncv and not np.array_equal(o[:, ncv:], sync[:, :nc_out - ncv]):
            bad = np.flatnonzero(np.any(o[:, ncv:] != sync[:, :nc_out - ncv], axis=1))
            seen.setdefault("sync", "%s: the sync channel is not copied bit for bit: %d samples differ (first at %d: %d instead of %d)"
                            % (ctx0, bad.size, bad[0], o[bad[0], ncv], sync[bad[0], 0]))
        dd = np.abs(o[:, :ncv].astype(np.float64) - ref[:, :ncv])
        if dd.max() > 1.01:          # truncation to int16 of values computed in float32 (file) vs float64 (reference)
            t, c = np.unravel_index(np.argmax(dd), dd.shape)
            seen.setdefault("reference", "%s: output differs from batch-wise in-memory destriping with the documented margins by %.1f LSB at sample %d channel %d"
                            % (ctx0, dd.max(), t, c))
        if cfg.get("ns2add"):
            pad = first_run[ns:]
            if not np.array_equal(pad, np.tile(first_run[ns - 1], (pad.shape[0], 1))):
                seen.setdefault("padding", "%s: the padding samples do not repeat the last sample" % ctx0)
    # QC files
    if cfg.get("no_rms"):
        if art1["saturation"] is not None or art1["ap_rms.bin"] is not None:
            seen.setdefault("qc:written-although-disabled", "%s: QC files are written although compute_rms=False" % ctx0)
    sat = art1["saturation"] if not cfg.get("no_rms") else np.zeros(ns, dtype=bool)
    if sat is None or sat.shape != (ns,):
        seen.setdefault("qc:saturation-length", "%s: saturation file has shape %r, expected one entry per sample (%d)" % (ctx0, None if sat is None else sat.shape, ns))
    nb_exp = int(np.ceil(max(ns - N, 0) / (N - 2 * TAPER))) + 1
    rms = np.frombuffer(art1["ap_rms.bin"] or b"", dtype=np.float32)
    tim = np.frombuffer(art1["ap_time.bin"] or b"", dtype=np.float32)
    if not cfg.get("no_rms") and (rms.size != nb_exp * ncv * runs or tim.size != nb_exp * runs or nbatches != nb_exp):
        seen.setdefault("qc:rms-rows", "%s: %d rms values / %d timestamps, expected one row per batch (%d batches x %d channels)" % (ctx0, rms.size, tim.size, nb_exp, ncv))
    for f in ("_iblqc_ephysTimeRmsAP.rms.npy", "_iblqc_ephysTimeRmsAP.timestamps.npy"):
        if not cfg.get("no_rms") and not os.path.exists(os.path.join(d, "o1", f)):
            seen.setdefault("qc:files", "%s: %s not written" % (ctx0, f))
    # ---- several workers: every trace
    stats = []
    capinfo = []
    shown = None
    for p in range(2, cfg["pmax"] + 1):
        ctx = "%s workers=%d" % (ctx0, p)
        art, s, exc = execute(fbin, os.path.join(d, "op"), cfg, p, append_runs=runs)
        ntr += 1
        if exc is not None:
            short = (p - 1) * int(ns / p) / N > np.ceil(max(ns - N, 0) / (N - 2 * TAPER))
            seen.setdefault("workers:exc:%s%s" % (type(exc).__name__, ":start-past-last-batch" if short else ""),
                            "%s: a worker raised %s: %s" % (ctx, type(exc).__name__, exc))
            continue
        per = sched.footprint(s.ops)
        if getattr(s, "bypassed", False) or len(per) != p or any(t < 0 for t in per):
            # the fan-out / the shared files are not reached through the seams any more (refactored dispatch): black-box comparison with the one-worker run
            if art["out.bin"] != art1["out.bin"]:
                seen.setdefault("workers:differs-from-one-worker", "%s (uncontrolled execution): the output is not byte-identical to the one-worker result (sizes %d/%d)"
                                % (ctx, len(art["out.bin"] or b""), len(art1["out.bin"] or b"")))
            if art["ap_rms.bin"] != art1["ap_rms.bin"] or art["ap_time.bin"] != art1["ap_time.bin"]:
                seen.setdefault("workers:qc-differs", "%s (uncontrolled execution): rms/time files differ from the one-worker result" % ctx)
            stats.append((p, 0, 0, 0, 0, 0, 1, 1))
            continue
        ref_keys = {t: [o.key() for o in per[t]] for t in per}
        # every output byte written, all writers agree
        nbytes = (ns + cfg.get("ns2add", 0)) * nc_out * isz
        app_off = nbytes * (runs - 1)              # in append mode the recorded footprint is that of the last (appending) run
        if app_off:
            for t in per:
                for o in per[t]:
                    if o.file == "out.bin":
                        o.start -= app_off
                        o.end -= app_off
            neg = [o for t in per for o in per[t] if o.file == "out.bin" and o.start < 0]
            if neg:
                seen.setdefault("append:overwrites-earlier-run", "%s: the appending run writes into the data of the earlier run: %r" % (ctx, neg[0]))
                for o in neg:
                    o.start, o.end, o.data = 0, 0, b""
        unwritten, disagree, cnt = sched.coverage(per, "out.bin", nbytes)
        if unwritten:
            first = int(np.flatnonzero(cnt == 0)[0])
            seen.setdefault("coverage:unwritten", "%s: %d output bytes are written by no worker (first: sample %d)" % (ctx, unwritten, first // (nc_out * 2)))
        conf = sched.conflicts(per)
        conf_out = [c for c in conf if not c[0].file.endswith(".npy")]
        if disagree or conf_out:
            x, y = (conf_out or conf)[0]
            seen.setdefault("coverage:writers-disagree", "%s: two workers write different values to the same place: %r vs %r (%d bytes of out.bin in dispute)" % (ctx, x, y, disagree))
        scheds, norient, ncyc, capped = sched.traces(per, conf, cap=256 if cfg["pmax"] <= 4 else 64)
        # (more orientations than the cap: sched.traces then enumerates them by deviations from the default orientation, 0, 1, 2, ... and mirrored)
        # always at least: natural order (done), reverse worker order, round robin
        extra = []
        lens = {t: len(per[t]) for t in per}
        rev = [t for t in sorted(per, reverse=True) for _ in range(lens[t])]
        rr = []
        pos = {t: 0 for t in per}
        while any(pos[t] < lens[t] for t in per):
            for t in sorted(per, reverse=True):
                if pos[t] < lens[t]:
                    rr.append(t)
                    pos[t] += 1
        extra = [rev, rr]
        todo = [sc for sc in (scheds or []) if sc != s.order] + [e for e in extra if e != s.order]
        uniq = []
        for sc in todo:
            if sc not in uniq:
                uniq.append(sc)
        outcomes = {(art["out.bin"], art["ap_rms.bin"], art["ap_time.bin"])}
        compare = [(s.order, art)]
        for sc in uniq:
            a2, s2, e2 = execute(fbin, os.path.join(d, "op"), cfg, p, schedule=sc, append_runs=runs)
            ntr += 1
            if e2 is not None:
                seen.setdefault("workers:exc:%s" % type(e2).__name__, "%s schedule %r: a worker raised %s: %s" % (ctx, sc, type(e2).__name__, e2))
                continue
            per2 = sched.footprint(s2.ops)
            if {t: [o.key() for o in per2[t]] for t in per2} != ref_keys:
                # what a worker writes must not depend on the schedule (it never reads shared files): if it does, the harness does not own the nondeterminism
                diff = [t for t in per2 if [o.key() for o in per2[t]] != ref_keys.get(t)]
                seen.setdefault("schedule-dependent-footprint", "%s: worker(s) %r write different bytes under schedule %r than under %r" % (ctx, diff, sc[:12], s.order[:12]))
            outcomes.add((a2["out.bin"], a2["ap_rms.bin"], a2["ap_time.bin"]))
            compare.append((sc, a2))
        for sc, a in compare:
            if a["out.bin"] != art1["out.bin"]:
                o2 = np.frombuffer(a["out.bin"], dtype=odt)
                o1 = np.frombuffer(art1["out.bin"], dtype=odt)[:o2.size]
                where = int(np.flatnonzero(o2 != o1[:o2.size])[0]) // nc_out if o2.size and o2.size <= o1.size and np.any(o2 != o1[:o2.size]) else -1
                seen.setdefault("workers:differs-from-one-worker", "%s schedule %r...: the output is not byte-identical to the one-worker result (sizes %d/%d, first difference at sample %d)"
                                % (ctx, sc[:10], len(a["out.bin"]), len(art1["out.bin"]), where))
                break
            if a["ap_rms.bin"] != art1["ap_rms.bin"] or a["ap_time.bin"] != art1["ap_time.bin"]:
                seen.setdefault("workers:qc-differs", "%s schedule %r...: rms/time files differ from the one-worker result (%d/%d values)"
                                % (ctx, sc[:10], len(a["ap_rms.bin"]) // 4, len(art1["ap_rms.bin"]) // 4))
                break
            if not cfg.get("no_rms") and (a["saturation"] is None or a["saturation"].shape != (ns,)):
                seen.setdefault("qc:saturation-length", "%s: saturation file has the wrong length" % ctx)
        if len(outcomes) > 1:
            seen.setdefault("schedule-dependent", "%s: %d different results over %d schedules" % (ctx, len(outcomes), len(compare)))
        stats.append((p, sum(lens.values()), sched.overlaps(per), len(conf), norient, ncyc, len(compare), len(outcomes)))
        if capped:
            capinfo.append(int(capped) - 1)
        if conf and shown is None:
            shown = dict(configuration={k: v for k, v in cfg.items() if k != "labels"}, workers=p, shared_operations=sum(lens.values()),
                         value_conflict_pairs=len(conf), first_conflict=[repr(conf[0][0]), repr(conf[0][1])],
                         executed_schedule=[int(t) for t in compare[-1][0][:60]], result="byte-identical to the one-worker run")
    x = dict(worker_configurations=len(stats), shared_operations=sum(st[1] for st in stats), overlapping_write_pairs=sum(st[2] for st in stats),
             value_conflict_pairs=sum(st[3] for st in stats), orientations=sum(st[4] for st in stats), cyclic_orientations=sum(st[5] for st in stats),
             schedules_executed=sum(st[6] for st in stats), distinct_results=sum(st[7] for st in stats),
             deviation_bounded_configurations=len(capinfo))
    if capinfo:
        x["deviation_levels_completed"] = sum(c + 1 for c in capinfo)      # levels 0..k of orientation deviations, summed over those configurations
    return Res(list(seen.items()), o=tuple((st[0], st[3] > 0, st[7]) for st in stats), tr=ntr, x=x, s=shown)


# ------------------------------------------------------------------ conformance: a free-running real joblib run
def joblib_cases(tier, seed):
    return [dict(nsites=4, ns=2 * 4096 + 333, nbatch=4096, pmax=3)] if tier == "quick" else \
        [dict(nsites=4, ns=2 * 4096 + 333, nbatch=4096, pmax=3), dict(nsites=4, ns=4 * 2560, nbatch=2560, pmax=4)]


def joblib_check(cfg):
    d = os.path.join(synth.proc_scratch(), "c06j")
    shutil.rmtree(d, ignore_errors=True)
    os.makedirs(d)
    fbin, data = recording(d, cfg)
    art1, s1, exc1 = execute(fbin, os.path.join(d, "o1"), cfg, 1)
    v = []
    if exc1 is not None:
        return Res([("p1:exc", "one worker raised %s" % exc1)])
    out = Path(d) / "oj" / "out.bin"
    os.makedirs(out.parent)
    env_path = os.environ.get("PYTHONPATH", "")
    os.environ["PYTHONPATH"] = (SHIM + os.pathsep + env_path) if not HAVE_PYFFTW else env_path
    try:
        voltage.decompress_destripe_cbin(Path(fbin), output_file=out, nprocesses=cfg["pmax"], **options(cfg))
    finally:
        os.environ["PYTHONPATH"] = env_path
    got = open(out, "rb").read()
    if got != art1["out.bin"]:
        v.append(("joblib:conformance", "the file written by %d real joblib worker processes differs from the controlled one-worker execution" % cfg["pmax"]))
    return Res(v, o="joblib", tr=2)


CHECK = {
    "property": "C06",
    "rule": "one case = (recording length, batch size, options); inside it worker counts 2..pmax and, for each, every Mazurkiewicz trace of the recorded footprint "
            "(plus reversed and round-robin linearisations); non-trivial = more than one worker",
    "assumptions": [
        "pyfftw is not installed: /verif/shims/pyfftw (NumPy/SciPy rfft/irfft with the same shape checks) stands in for it",
        "workers run as baton-passing threads, one at a time, with scheduling points before every write to a shared file (out.bin, ap_rms.bin, ap_time.bin through "
        "ndarray.tofile; the saturation memmap through __setitem__); they never read a shared file (asserted), so what each worker writes is schedule independent "
        "(asserted on every execution) and traces can be enumerated from the recorded footprint with a value-aware independence relation",
        "the saturation file is only required to have one entry per sample: its flags at batch seams depend on which batch wrote last (the last sample of a batch has no slew flag); "
        "operations on it take part in the trace enumeration but its content is not compared",
        "4 sites + sync with CAR, 16 sites with the k-filter (padding 4); NBATCH in {2560, 4096} (thorough: + 3072, 6556) because the taper is fixed at 1024 samples; "
        "recordings longer than one batch; content: seeded background with saturated stretches and slew steps on the batch seams",
        "reference: each batch destriped in memory with the library's own building blocks, kept [1024, NBATCH-1024) (first from 0, last to the end), compared within 1 LSB",
        "one free-running real-joblib run (separate processes) per tier is a conformance point",
    ],
    "clauses": [
        Clause("schedules", "configurations x worker counts x all traces", cases=config_cases, check=config_check, setup=_setup),
        Clause("joblib", "free-running joblib conformance", cases=joblib_cases, check=joblib_check, setup=_setup, serial=True),
    ],
}
