"""
C17 - sliding windows cover, overlap, partition and splice exactly.

E1: every (ns, nswin, overlap) triple of a box is run through the real
ibldsp.utils.WindowGenerator and compared with the definitions in the property.
"""
import itertools

import numpy as np

from mc.engine import Clause, Res

from ibldsp import utils


def _box(tier, seed):
    if tier == "quick":
        NS, NW = 400, 64
    else:
        NS, NW = 640, 96
    cases = [(ns, nw, ov) for ns in range(1, NS + 1) for nw in range(1, NW + 1) for ov in range(0, nw)]
    return cases


def _large(tier, seed):
    """the triples the converter / destriper / rms code actually use, and seeded large ones around them"""
    rng = np.random.default_rng(1000 + seed)
    out = set()
    for nw, ov in [(600, 576), (1200, 576), (2 ** 16, 2048), (4096, 2048), (2560, 2048), (30000, 0), (1024, 512),
                   (65536, 1024), (9000, 1000)]:
        for ns in [nw - 1, nw, nw + 1, nw + ov - 1, nw + ov, nw + ov + 1, 2 * nw - ov - 1, 2 * nw - ov, 2 * nw - ov + 1,
                   3 * nw - 2 * ov + 1, 5 * nw + 7] + [int(x) for x in rng.integers(1, 6 * nw, 6)]:
            if ns >= 1:
                out.add((ns, nw, ov))
    # long signals (1e5 .. 3e6 samples) whose last window brings only 1..3 new samples, or misses 1..3: a real remainder, not round-off
    for nw, ov in [(1000, 0), (1000, 100), (4096, 2048), (30000, 0), (600, 576), (65536, 2048)]:
        hop = nw - ov
        for k in (100, 101, 999, 3000):
            base = nw + k * hop
            if base > 3_200_000:
                continue
            for r in (-2, -1, 0, 1, 2, 3, hop - 1):
                out.add((base + r, nw, ov))
    n = 150 if tier == "quick" else 1500
    for _ in range(n):
        nw = int(rng.integers(65, 5000))
        ov = int(rng.integers(0, nw))
        ns = int(rng.integers(1, 12 * nw))
        out.add((ns, nw, ov))
    return sorted(out)


def check_triple(case):
    ns, nswin, overlap = case
    v = []
    wg = utils.WindowGenerator(ns, nswin, overlap)
    fl = list(itertools.islice(wg.firstlast, ns + 3))
    stride = nswin - overlap
    # reference: windows start every `stride` samples from 0, are nswin long, the one reaching ns is the last
    ref = []
    f = 0
    while True:
        last = min(f + nswin, ns)
        ref.append((f, last))
        if last == ns:
            break
        f += stride
    fl = [(int(a), int(b)) for a, b in fl]
    if fl != ref:
        # decompose into the property's sentences for a readable key
        if not fl or fl[0][0] != 0 or fl[-1][1] != ns or any(b <= a for a, b in fl) or \
                any(fl[i + 1][0] > fl[i][1] for i in range(len(fl) - 1)):
            v.append(("cover", "windows %r do not cover [0,%d) without gaps (expected %r)" % (fl[:6], ns, ref[:6])))
        elif any(fl[i][1] - fl[i + 1][0] != overlap for i in range(len(fl) - 1)):
            v.append(("overlap", "consecutive windows %r do not overlap by %d" % (fl[:6], overlap)))
        else:
            v.append(("windows", "windows %r differ from the reference %r" % (fl[:6], ref[:6])))
        return Res(v, o=("bad", len(fl)))
    nwin = len(ref)
    if wg.nwin != nwin:
        v.append(("nwin" if ns >= nswin else "nwin:ns<nswin",
                  "announced nwin=%r but %d windows are produced" % (wg.nwin, nwin)))
    # slices / slice_array agree with firstlast
    sl = list(wg.slice)
    if [(s.start, s.stop) for s in sl] != ref:
        v.append(("slice", "slice generator disagrees with firstlast"))
    # time scale = centre of each window
    fs = 3.0
    ts = wg.tscale(fs)
    exp = np.array([(a + b - 1) / 2.0 / fs for a, b in ref])
    if ts.shape != exp.shape or not np.allclose(ts, exp, rtol=0, atol=1e-9):
        v.append(("tscale", "tscale %r != window centres %r" % (ts[:4], exp[:4])))
    # the sampling rate as the number types callers hold it in (metadata floats, numpy scalars of small integer / single precision types)
    for fsx in ((30000, 2500.0, np.int16(30000), np.uint16(40000), np.int32(30000), np.float32(30000), np.float64(29999.7)) if (ns + nswin + overlap) % 4 == 0 else ()):
        with np.errstate(all="ignore"):
            tsx = np.asarray(wg.tscale(fsx), dtype=np.float64)
        expx = np.array([(a + b - 1) / 2.0 / float(fsx) for a, b in ref])
        if tsx.shape != expx.shape or not np.allclose(tsx, expx, rtol=1e-6, atol=0):
            v.append(("tscale:rate-type", "tscale(%s(%r)) = %r != window centres %r" % (type(fsx).__name__, fsx, tsx[:3], expx[:3])))
            break
    # valid sub-windows: every sample exactly once (the generator documents "overlap must be even")
    if overlap % 2 == 0:
        cnt = np.zeros(ns, dtype=np.int32)
        okv = True
        try:
            val = list(itertools.islice(wg.firstlast_valid, ns + 3))
        except Exception as e:
            v.append(("valid:exc", "firstlast_valid raised %s: %s" % (type(e).__name__, e)))
            val = []
            okv = False
        for first, last, fv, lv in val:
            if not (first <= fv <= lv <= last):
                okv = False
            cnt[max(fv, 0):max(lv, 0)] += 1
        if okv and ([(a, b) for a, b, _, _ in val] != ref or not np.all(cnt == 1)):
            okv = False
        if not okv and not any(k.startswith("valid") for k, _ in v):
            bad = np.flatnonzero(cnt != 1)[:5]
            v.append(("valid", "valid sub-windows hit samples %r %r times" % (bad.tolist(), cnt[bad].tolist())))
    else:
        try:
            val = list(itertools.islice(wg.firstlast_valid, ns + 3))
            cnt = np.zeros(ns, dtype=np.int32)
            for first, last, fv, lv in val:
                cnt[fv:lv] += 1
            if not np.all(cnt == 1):
                v.append(("valid:odd", "odd overlap accepted but valid sub-windows do not partition the samples"))
        except AssertionError:
            pass  # documented precondition: explicit rejection
    # splicing amplitudes sum to one for overlap <= nswin / 2
    if 2 * overlap <= nswin:
        tot = np.zeros(ns)
        try:
            sp = list(itertools.islice(wg.firstlast_splicing, ns + 3))
            good = True
            for (first, last, amp), (a, b) in zip(sp, ref):
                if (first, last) != (a, b) or amp.shape != (b - a,):
                    good = False
                    break
                tot[first:last] += amp
            if not good or len(sp) != len(ref):
                v.append(("splice:windows", "splicing windows disagree with firstlast"))
            elif not np.allclose(tot, 1.0, rtol=0, atol=1e-9):
                bad = np.flatnonzero(np.abs(tot - 1) > 1e-9)
                kind = "splice:sum" if overlap > 0 else "splice:sum:overlap0"
                v.append((kind, "splicing amplitudes sum to %r at samples %r (nwin=%d, last window %d long)"
                          % (tot[bad[:4]].tolist(), bad[:4].tolist(), nwin, ref[-1][1] - ref[-1][0])))
        except Exception as e:
            kind = "splice:exc:overlap0" if overlap == 0 else "splice:exc"
            v.append((kind, "firstlast_splicing raised %s: %s" % (type(e).__name__, e)))
    nontrivial = nwin >= 2
    return Res(v, o=(nwin if nwin < 6 else 6, ref[-1][1] - ref[-1][0] < nswin, overlap == 0, 2 * overlap <= nswin),
               nt=nontrivial, tr=5)


# ------------------------------------------------------------------ windows cut out of arrays of any rank along any axis
def sa_cases(tier, seed):
    NS, NW = (40, 9) if tier == "quick" else (64, 12)
    return [(ns, nw) for ns in range(1, NS + 1) for nw in range(1, NW + 1)]


def sa_check(case):
    ns, nswin = case
    v = []
    ntr = 0
    for overlap in range(0, nswin):
        wg = utils.WindowGenerator(ns, nswin, overlap)
        ref = [(int(a), int(b)) for a, b in itertools.islice(utils.WindowGenerator(ns, nswin, overlap).firstlast, ns + 3)]
        # the window length equal to the other dimension (square blocks) is one of the shapes on purpose
        for shape, axis in (((ns,), -1), ((ns,), 0), ((3, ns), -1), ((3, ns), 1), ((ns, 3), 0), ((ns, 1), 0), ((ns, nswin), 0), ((nswin, ns), 1), ((2, ns, 3), 1), ((ns, 2, 2), 0), ((2, 2, ns), 2), ((2, 2, ns), -1), ((2, ns, 3), -2)):
            sig = np.arange(int(np.prod(shape)), dtype=np.float64).reshape(shape) * 1.5 + 0.25
            try:
                got = list(itertools.islice(wg.slice_array(sig, axis=axis), ns + 3))
            except Exception as e:
                v.append(("slice_array:exc", "WindowGenerator(%d, %d, %d).slice_array on shape %r axis %d raised %s: %s" % (ns, nswin, overlap, shape, axis, type(e).__name__, e)))
                break
            ntr += 1
            exp = [np.take(sig, np.arange(a, b), axis=axis) for a, b in ref]
            if len(got) != len(exp) or any(g.shape != e.shape or not np.array_equal(g, e) for g, e in zip(got, exp)):
                bad = next((i for i, (g, e) in enumerate(zip(got, exp)) if g.shape != e.shape or not np.array_equal(g, e)), -1)
                v.append(("slice_array", "WindowGenerator(%d, %d, %d).slice_array on an array of shape %r along axis %d: %d windows (expected %d); window %d has shape %r, the samples [%d, %d) along that axis have shape %r"
                          % (ns, nswin, overlap, shape, axis, len(got), len(exp), bad, got[bad].shape if 0 <= bad < len(got) else None,
                             ref[bad][0] if bad >= 0 else -1, ref[bad][1] if bad >= 0 else -1, exp[bad].shape if bad >= 0 else None)))
                break
        if v:
            break
    return Res(v, o=(ns >= nswin, nswin == 1), tr=ntr)


# ------------------------------------------------------------------ histories on one generator object
OPS = ("full", "peek", "half", "tscale", "valid", "valid-peek", "splice", "slice-half", "nested", "raise", "valid-nested", "zip")


def _hist_cases(tier, seed):
    depth = 3 if tier == "quick" else 4
    triples = [(600, 100, 20), (37, 10, 4), (20, 20, 0), (50, 16, 8), (9, 4, 2)] + ([(400, 64, 32), (11, 3, 0), (5, 7, 2)] if tier == "thorough" else [])
    words = [w for d in range(1, depth + 1) for w in itertools.product(OPS, repeat=d)]
    # one case = one triple x the words that start with a given first operation (a shard of the history tree)
    return [(t, first) for t in triples for first in OPS], words


def hist_cases(tier, seed):
    return _hist_cases(tier, seed)[0]


_WORDS = {}


def _hist_setup(tier, seed):
    _WORDS["w"] = _hist_cases(tier, seed)[1]


def hist_check(case):
    (ns, nswin, overlap), first = case
    stride = nswin - overlap
    ref, f = [], 0
    while True:
        last = min(f + nswin, ns)
        ref.append((f, last))
        if last == ns:
            break
        f += stride
    fs = 3.0
    ts_ref = np.array([(a + b - 1) / 2.0 / fs for a, b in ref])
    v, ntr, nstate = [], 0, 0

    def apply(wg, op):
        """one operation on the object; returns a description of what is wrong, or None"""
        if op == "full":
            got = [(int(a), int(b)) for a, b in itertools.islice(wg.firstlast, ns + 3)]
            return None if got == ref else "a full pass gives %r... (%d windows), expected %r... (%d windows)" % (got[:4], len(got), ref[:4], len(ref))
        if op == "peek":
            got = next(iter(wg.firstlast))
            return None if tuple(int(x) for x in got) == ref[0] else "the first window is %r" % (got,)
        if op == "half":
            got = []
            for fl in wg.firstlast:
                got.append((int(fl[0]), int(fl[1])))
                if len(got) >= max(1, len(ref) // 2):
                    break            # the consumer stops early
            return None if got == ref[:len(got)] else "an abandoned pass gives %r" % (got[:4],)
        if op == "tscale":
            ts = np.asarray(wg.tscale(fs), dtype=float)
            return None if ts.shape == ts_ref.shape and np.allclose(ts, ts_ref, rtol=0, atol=1e-9) else "tscale has %d entries %r, expected %d" % (ts.size, ts[:3], ts_ref.size)
        if op in ("valid", "valid-peek"):
            if overlap % 2:
                return None
            if op == "valid-peek":
                got = next(iter(wg.firstlast_valid))
                return None if (int(got[0]), int(got[1])) == ref[0] else "first valid window %r" % (got,)
            cnt = np.zeros(ns, dtype=int)
            val = list(itertools.islice(wg.firstlast_valid, ns + 3))
            for a, b, fv, lv in val:
                cnt[fv:lv] += 1
            return None if [(int(a), int(b)) for a, b, _, _ in val] == ref and np.all(cnt == 1) else "valid sub-windows cover samples %r times" % (sorted(set(cnt.tolist())),)
        if op == "splice":
            if 2 * overlap > nswin:
                return None
            tot = np.zeros(ns)
            n = 0
            for a, b, amp in itertools.islice(wg.firstlast_splicing, ns + 3):
                tot[a:b] += amp
                n += 1
            return None if n == len(ref) and np.allclose(tot, 1.0, rtol=0, atol=1e-9) else "splicing amplitudes sum to %r over %d windows" % (sorted(set(np.round(tot, 6).tolist()))[:4], n)
        if op == "slice-half":
            got = []
            for sl in wg.slice:
                got.append((sl.start, sl.stop))
                if len(got) >= max(1, len(ref) // 2):
                    break
            return None if got == ref[:len(got)] else "slices %r" % (got[:4],)
        if op == "nested":
            # another pass over the same object inside a pass (time scale asked for while iterating), outer pass abandoned after it
            for i, fl in enumerate(wg.firstlast):
                ts = np.asarray(wg.tscale(fs), dtype=float)
                if ts.shape != ts_ref.shape or not np.allclose(ts, ts_ref, rtol=0, atol=1e-9):
                    return "tscale asked for inside a pass has %d entries, expected %d" % (ts.size, ts_ref.size)
                break
            return None
        if op == "valid-nested":
            # the time scale asked for inside a loop over the valid sub-windows (another pass over the same object in flight)
            if overlap % 2:
                return None
            cnt = np.zeros(ns, dtype=int)
            for a, b, fv, lv in itertools.islice(wg.firstlast_valid, ns + 3):
                wg.tscale(fs)
                cnt[fv:lv] += 1
            return None if np.all(cnt == 1) else "valid sub-windows (with tscale() called inside the loop) cover samples %r times" % (sorted(set(cnt.tolist())),)
        if op == "zip":
            # two generators of the same object consumed in lock-step: valid sub-windows and splicing amplitudes
            if overlap % 2 or 2 * overlap > nswin:
                return None
            cnt = np.zeros(ns, dtype=int)
            tot = np.zeros(ns)
            for (a, b, fv, lv), (a2, b2, amp) in zip(itertools.islice(wg.firstlast_valid, ns + 3), wg.firstlast_splicing):
                cnt[fv:lv] += 1
                tot[a2:b2] += amp
            return None if np.all(cnt == 1) and np.allclose(tot, 1.0, rtol=0, atol=1e-9) else \
                "valid sub-windows and splicing amplitudes consumed in lock-step: samples covered %r times, amplitudes sum to %r" % (sorted(set(cnt.tolist())), sorted(set(np.round(tot, 6).tolist()))[:4])
        if op == "raise":
            # processing of a window raises, the caller handles it and goes on with the same object
            try:
                for i, fl in enumerate(wg.firstlast):
                    if i == min(1, len(ref) - 1):
                        raise KeyError("window processing failed")
            except KeyError:
                pass
            return None
        raise ValueError(op)

    seen_states = set()
    for w in _WORDS["w"]:
        if w[0] != first:
            continue
        wg = utils.WindowGenerator(ns, nswin, overlap)
        for i, op in enumerate(w):
            try:
                bad = apply(wg, op)
            except Exception as e:
                bad = "%s: %s" % (type(e).__name__, e)
            ntr += 1
            if bad:
                v.append(("history:%s-after-%s" % (op, w[i - 1] if i else "new"), "WindowGenerator(%d, %d, %d) after %r on the same object: %s: %s" % (ns, nswin, overlap, list(w[:i]), op, bad)))
                break
        if wg.nwin != len(ref):
            v.append(("history:nwin", "WindowGenerator(%d, %d, %d) after %r: nwin=%r but %d windows" % (ns, nswin, overlap, list(w), wg.nwin, len(ref))))
        seen_states.add((wg.iw, wg.nwin))
        nstate += 1
        if len(v) > 3:
            break
    uniq = {}
    for k, m in v:
        uniq.setdefault(k, m)
    return Res(list(uniq.items()), o=(len(ref) > 2, overlap == 0, len(seen_states)), nt=len(ref) >= 2, tr=ntr, x=dict(histories=nstate))


CHECK = {
    "property": "C17",
    "rule": "every (ns, nswin, overlap<nswin) triple of the box is a distinct case; non-trivial = at least two windows",
    "assumptions": [
        "box: ns<=400, nswin<=64 (quick) / ns<=640, nswin<=96 (thorough), every overlap < nswin; plus the large triples "
        "used by the converter/destriper and seeded large triples (VERIF_SEED) - the large ones are a sample, the box is exhaustive",
        "firstlast_valid documents 'overlap must be even': for odd overlaps an AssertionError is accepted, a wrong partition is not",
    ],
    "clauses": [
        Clause("box", "all triples in the box", cases=_box, check=check_triple),
        Clause("large", "production-size triples", cases=_large, check=check_triple),
        Clause("slice-array", "windows cut out of 1-D / 2-D / 3-D arrays along every axis (square blocks included) are the samples [first, last) along that axis",
               cases=sa_cases, check=sa_check),
        Clause("object-histories", "every sequence (to depth 3 quick / 4 thorough) of complete, abandoned, nested and failing passes, time scales, valid windows, splicing and slices on ONE "
               "generator object: every operation still gives the reference answer", cases=hist_cases, check=hist_check, setup=_hist_setup),
    ],
}
