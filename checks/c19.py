"""
C19 - clock synchronisation recovers the affine map and only true event pairs.  Engine E1 with deviation bounding.

The event times are reals (not enumerable); what is enumerated exhaustively is the deviation structure the property is
about: every placement of <= 1 missing event on each side (and <= 2 on one side) x drift x offset x jitter x mode,
on fixed deterministic irregular base trains (VERIF_SEED selects the family).
"""
import itertools

import numpy as np

from mc.engine import Clause, Res
from mc import layouts as _layouts

from ibldsp import utils

DRIFTS = [-100.0, -37.3, 0.0, 17.14, 100.0]
OFFSETS = [-150.3, -1.234, 0.0, 0.05, 77.7, 300.0]
SEED = [0]


def _setup(tier, seed):
    SEED[0] = seed


def base_train(n, fam):
    """irregular spacings in [0.5, 10] s from a small LCG (deterministic, no two spacings equal); family >= 10: spacings in [5, 10] s, family >= 20: in [9, 10] s"""
    x = 12345 + 7919 * fam + 104729 * SEED[0]
    lo, span = (0.5, 9.5) if fam < 10 else ((5.0, 5.0) if fam < 20 else (9.0, 1.0))
    sp = []
    for _ in range(n):
        x = (1103515245 * x + 12345) % (2 ** 31)
        sp.append(lo + span * (x / 2 ** 31))
    t = np.cumsum(sp) + 3.14159
    return t


def cases_one(tier, seed):
    """<= 1 missing event on each side, all placements"""
    out = []
    plan = [(30, 0)] if tier == "quick" else [(30, 0), (30, 1), (100, 2)]
    for n, fam in plan:
        for ma in range(-1, n):
            out.append(("one", n, fam, ma))
    if tier == "quick":
        for ma in range(-1, 100, 3):
            out.append(("one-sparse", 100, 2, ma))
    return out


def cases_two(tier, seed):
    """<= 2 missing on one side (all pairs), 0 or 1 on the other"""
    out = []
    n = 30
    for side in ("a", "b"):
        for i in range(n):
            out.append(("two", n, 0, side, i))
    if tier == "thorough":
        for n2, fam in ((60, 3),):
            for side in ("a", "b"):
                for i in range(n2):
                    out.append(("two", n2, fam, side, i))
    return out


def run_one(n, fam, miss_a, miss_b, drift, offset, jit, linear, close=None):
    """returns a list of (key, message); close = k: events k-1 and k are only 0.5 s apart and carry opposite extreme jitter (+0.1 / -0.1 ms)"""
    ta = base_train(n, fam)
    if close is not None:
        gaps = np.diff(np.r_[3.14159, ta])
        gaps[close] = 0.5
        ta = np.cumsum(gaps) + 3.14159
    true_b = ta * (1 + drift * 1e-6) + offset
    # fixed jitter pattern of +-0.1 ms (deterministic)
    if jit:
        j = 1e-4 * np.array([((i * 2654435761) % 1000) / 500.0 - 1 for i in range(n)])
    else:
        j = np.zeros(n)
    if close is not None:
        j[close - 1], j[close] = 1e-4, -1e-4
    tb_full = true_b + j
    keep_a = np.array([i for i in range(n) if i not in miss_a])
    keep_b = np.array([i for i in range(n) if i not in miss_b])
    tsa, tsb = ta[keep_a], tb_full[keep_b]
    out = []
    try:
        fcn, drift_hat, ia, ib = utils.sync_timestamps(tsa, tsb, return_indices=True, linear=linear)
    except Exception as e:
        return [("exc:%s" % type(e).__name__, "sync_timestamps raised %s: %s" % (type(e).__name__, e))]
    ia, ib = np.asarray(ia), np.asarray(ib)
    # every returned pair is a true correspondence
    wrong = [(int(a), int(b)) for a, b in zip(ia, ib) if keep_a[a] != keep_b[b]]
    if wrong:
        out.append(("false-pair", "returned pairs %r are not the same event" % wrong[:3]))
    ntrue = len(set(keep_a.tolist()) & set(keep_b.tolist()))
    if len(ia) < ntrue - 2 or len(set(ia.tolist())) != len(ia) or len(set(ib.tolist())) != len(ib):
        out.append(("missed-pairs", "%d pairs returned (distinct a: %d, b: %d) of %d true correspondences"
                    % (len(ia), len(set(ia.tolist())), len(set(ib.tolist())), ntrue)))
    # the map at held-out events (removed from a, so never seen by the fit) and at the kept ones
    # ... inside the span of the events both sides hold (beyond it an interpolating map extrapolates from its last two points, which amplifies
    # the 0.1 ms jitter by distance / spacing: the statement's tolerance is about the fitted range)
    held = np.array(sorted(miss_a)) if miss_a else np.array([], dtype=int)
    common = sorted(set(keep_a.tolist()) & set(keep_b.tolist()))
    lo_t, hi_t = ta[common[0]], ta[common[-1]]
    inner = [i for i in held if lo_t < ta[i] < hi_t]
    kept_in = [i for i in keep_a.tolist() if lo_t <= ta[i] <= hi_t]
    test_t = np.r_[ta[inner], ta[kept_in]] if len(inner) else ta[kept_in]
    test_true = np.r_[true_b[inner], true_b[kept_in]] if len(inner) else true_b[kept_in]
    err = np.max(np.abs(np.asarray(fcn(test_t), dtype=float) - test_true))
    if not err <= 2e-3:
        out.append(("map-error", "fitted map is off by %.3g s at held-out/kept events" % err))
    # events of side a beyond the span both sides hold: the map extrapolates there; an interpolating map does so from its two outermost points,
    # which amplifies their 0.1 ms jitter by distance / spacing - allowed for, nothing more (a map that stops following the clock is off by seconds)
    outer = [i for i in sorted(set(keep_a.tolist()) | set(held.tolist())) if not (lo_t <= ta[i] <= hi_t)]
    if outer and len(common) >= 3:
        for i in outer:
            if ta[i] < lo_t:
                dist, spacing = lo_t - ta[i], ta[common[1]] - ta[common[0]]
            else:
                dist, spacing = ta[i] - hi_t, ta[common[-1]] - ta[common[-2]]
            allowed = 2e-3 + (4e-4 * dist / spacing if jit else 0.0) + 1e-6 * dist
            e_i = abs(float(np.asarray(fcn(np.array([ta[i]])), dtype=float)[0]) - true_b[i])
            if not e_i <= allowed:
                out.append(("map-error:extrapolation", "fitted map is off by %.3g s at event %d, %.2f s beyond the span of the matched events (allowed %.3g s)" % (e_i, i, dist, allowed)))
                break
    if not abs(drift_hat - drift) <= 5.0:
        out.append(("drift", "reported drift %.3f ppm, true %.3f ppm" % (drift_hat, drift)))
    return out


def _sweep(n, fam, miss_a, miss_b, seen, full):
    ntr = 0
    grid = list(itertools.product(DRIFTS, OFFSETS, (0, 1), (False, True))) if full else \
        [(DRIFTS[0], OFFSETS[0], 1, False), (DRIFTS[4], OFFSETS[5], 1, True), (DRIFTS[2], OFFSETS[2], 0, False), (DRIFTS[1], OFFSETS[3], 1, True)]
    for drift, offset, jit, linear in grid:
        for k, m in run_one(n, fam, miss_a, miss_b, drift, offset, jit, linear):
            seen.setdefault(k, "n=%d missing a=%r b=%r drift=%r offset=%r jitter=%r linear=%r: %s" % (n, sorted(miss_a), sorted(miss_b), drift, offset, jit, linear, m))
        ntr += 1
    return ntr


def check_one(case):
    kind, n, fam, ma = case
    seen = {}
    ntr = 0
    step = 1 if kind == "one" else 3
    for mb in range(-1, n, step):
        ntr += _sweep(n, fam, set() if ma < 0 else {ma}, set() if mb < 0 else {mb}, seen, full=(n <= 30))
    return Res(list(seen.items()), o=(n, ma < 0), tr=ntr)


def check_two(case):
    _, n, fam, side, i = case
    seen = {}
    ntr = 0
    for j in range(i + 1, n):
        for other in (-1, (i + j) // 2, n - 1):
            two = {i, j}
            one = set() if other < 0 else {other}
            ma, mb = (two, one) if side == "a" else (one, two)
            ntr += _sweep(n, fam, ma, mb, seen, full=False)
    return Res(list(seen.items()), o=(n, side), tr=ntr)


def cases_long(tier, seed):
    """300 events spaced 5..10 s (> 2000 s): drift x duration exceeds the coarse bin, the second assignment pass has work to do"""
    step = 10 if tier == "quick" else 3
    # ... and trains of 130-300 events with little drift: all pairs fall into one bin of the coarse correlation (counts above 127 / 255)
    return [("long", 300, 10, ma) for ma in range(-1, 300, step)] + [("long", n, 10, ma) for n in (130, 200, 260) for ma in range(-1, n, step * 4)]


def check_long(case):
    _, n, fam, ma = case
    seen = {}
    ntr = 0
    for mb in list(range(-1, n, 29)) + [n - 1]:
        for drift in (-100.0, 95.0, 100.0, 0.0, 5.0):
            for offset, jit, linear in ((0.0, 1, False), (77.7, 0, True)):
                for k, m in run_one(n, fam, set() if ma < 0 else {ma}, set() if mb < 0 else {mb}, drift, offset, jit, linear):
                    seen.setdefault(k + ":long-train", "n=%d (spacings 5-10 s) missing a=%r b=%r drift=%r offset=%r jitter=%r linear=%r: %s" % (n, ma, mb, drift, offset, jit, linear, m))
                ntr += 1
    return Res(list(seen.items()), o=(ma < 0,), tr=ntr)


def cases_close(tier, seed):
    """worst-case jitter: a pair of events 0.5 s apart with opposite extreme jitter, at every position of a long drifting train (linear mode fits a line: it must not care)"""
    # spacings 9-10 s: 300 events last 2850 s, so that at 100 ppm about 45 events on either side are left to the second assignment pass
    return [("close", 300, 20, k) for k in range(2, 298)]


def check_close(case):
    _, n, fam, k = case
    seen = {}
    ntr = 0
    for drift in (100.0, -100.0):
        for miss_a, miss_b in ((set(), set()), ({120, 151, 200}, {133, 151, 170})):
            for key, m in run_one(n, fam, miss_a, miss_b, drift, -83.7, 1, True, close=k):
                seen.setdefault(key + ":close-pair", "n=%d (spacings 9-10 s), events %d and %d only 0.5 s apart with jitter +0.1 / -0.1 ms, missing a=%r b=%r, drift=%r, linear=True: %s"
                                % (n, k - 1, k, sorted(miss_a), sorted(miss_b), drift, m))
            ntr += 1
    return Res(list(seen.items()), o=(k < 100, k > 200), tr=ntr)


def cases_keep(tier, seed):
    return [(linear, k) for linear in (False, True) for k in range(4)]


def check_keep(case):
    """synchronise several clock pairs, then use the maps: a map obtained earlier is not altered by later calls"""
    linear, k = case
    n = 60
    ta = base_train(n, 5 + k)
    pairs = [(37.3 + k, 12.5), (-80.0, -140.2 - k), (100.0, 3.3), (0.0, 60.0)]
    fcns = []
    held = []
    for drift, offset in pairs:
        ta_i = ta.copy()
        tb_i = ta * (1 + drift * 1e-6) + offset
        f, d = utils.sync_timestamps(ta_i, tb_i, linear=linear)
        fcns.append(f)
        held.append((ta_i, tb_i))
    # the caller goes on using its own arrays: converts the times in place, clears the other one
    for (ta_i, tb_i), f in zip(held, fcns):
        ta_i[:] = np.asarray(f(ta_i), dtype=float)
        tb_i[:] = 0
    v = []
    for (drift, offset), f in zip(pairs, fcns):
        err = np.max(np.abs(np.asarray(f(ta[5:-5]), dtype=float) - (ta[5:-5] * (1 + drift * 1e-6) + offset)))
        if not err <= 2e-3:
            v.append(("map-altered-by-later-call", "linear=%s: the map fitted for drift %r ppm / offset %r s is off by %.3g s once other clock pairs have been synchronised"
                      % (linear, drift, offset, err)))
            break
    return Res(v, o=(linear,), tr=len(pairs))


CHECK = {
    "property": "C19",
    "rule": "one case = (base train, index of the event missing on side a); the check enumerates every index missing on side b x 5 drifts x 6 offsets x "
            "jitter on/off x both modes (n=30); non-trivial = at least one event missing",
    "assumptions": [
        "event times are a fixed deterministic irregular family (LCG spacings in [0.5,10] s; VERIF_SEED rotates it): the spacing dimension is not enumerated",
        "tolerances: 2 ms on the map at held-out and kept events inside the fitted range, 5 ppm on the drift, at most 2 true correspondences not returned",
        "jitter is a fixed +-0.1 ms pattern",
    ],
    "clauses": [
        Clause("missing<=1+1", "every placement of <= 1 missing event on each side", cases=cases_one, check=check_one, setup=_setup),
        Clause("missing<=2", "every placement of 2 missing events on one side x {0,1} on the other", cases=cases_two, check=check_two, setup=_setup),
        Clause("kept-maps", "maps returned by earlier calls stay valid after later calls", cases=cases_keep, check=check_keep, setup=_setup),
        Clause("close-pair", "linear mode on a 300-event train at +-100 ppm with a close pair of events carrying opposite extreme jitter at every position (the straight-line fit must not amplify it)",
               cases=cases_close, check=check_close, setup=_setup),
        Clause("long-trains", "300 events over > 2000 s at +-100 ppm: placements of one missing event per side on a stride", cases=cases_long, check=check_long, setup=_setup),
        _layouts.make_clause(__import__("checks._layout_specs", fromlist=["x"]).c19()),
    ],
}
