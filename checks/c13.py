"""
C13 - extracted waveforms equal the source data and the saved files agree row by row.  Engines E1 + E3.

Array level : every peak channel x radius x spike position through extract_wfs_array / make_channel_index.
Table level : every small spike train around both recording margins x max_wf x seeds through the spike selection.
File level  : extract_wfs_cbin on a recording with position-dependent content, every chunk size, and *every execution
              order of the chunk tasks* (each task has exactly one operation on the shared traces file - its row write -
              so the interleavings of shared operations are the permutations of the tasks); the write log must show
              every row written exactly once.
"""
import itertools
import os
import shutil
from pathlib import Path

import numpy as np
import pandas as pd

from mc.engine import Clause, Res, HarnessError
from mc import synth, refmodel

import spikeglx
from ibldsp import waveform_extraction as wx
from ibldsp import utils

TROUGH, LENGTH = 42, 128


# ------------------------------------------------------------------ array level
def _geom(fam, nsites):
    if fam == "NP1":
        sites = [(0, i // 2, (2, 0)[i % 2] if (i // 2) % 2 == 0 else (3, 1)[i % 2]) for i in range(nsites)]
        kind = "3B2"
    elif fam == "NP2.4-interleaved":
        # four shanks, channel numbers running over the shanks in blocks of 3: channel index is not monotonic in depth inside a neighbourhood
        sites = [((i // 3) % 4, (i // 12) * 2 + (i % 3) // 2 + (1 if i % 3 == 2 else 0), i % 2) for i in range(nsites)]
        kind = "NP2.4"
    elif fam == "NP1-permuted":
        base = [(0, i // 2, (2, 0)[i % 2] if (i // 2) % 2 == 0 else (3, 1)[i % 2]) for i in range(nsites)]
        sites = [base[(i * 7) % nsites] for i in range(nsites)] if nsites % 7 else [base[(i * 5) % nsites] for i in range(nsites)]
        kind = "3B2"
    else:
        sites = [(0, i // 2, i % 2) for i in range(nsites)]
        kind = "NP2.1"
    xy = np.array([synth.site_xy(kind, s) for s in sites], dtype=float)
    return kind, sites, xy


def array_cases(tier, seed):
    return [(fam, radius, pc) for fam in ("NP1", "NP2", "NP2.4-interleaved", "NP1-permuted") for radius in (20.0, 50.0, 200.0) for pc in range(24)]


def array_check(case):
    fam, radius, pc = case
    kind, sites, xy = _geom(fam, 24)
    nc = 24
    ns = 400
    v = []
    seen = {}
    arr = ((np.arange(ns)[None, :] * 31 + np.arange(nc)[:, None] * 7919) % 65521).astype(np.float64)   # position-dependent content
    nb = utils.make_channel_index(xy, radius=radius)
    # reference neighbourhood: channels within the radius, ascending, padded with nc
    d = np.sqrt(((xy[:, None, :] - xy[None, :, :]) ** 2).sum(-1))
    ref_rows = [np.flatnonzero(d[c] <= radius) for c in range(nc)]
    width = max(len(r) for r in ref_rows)
    if nb.shape != (nc, width):
        return Res([("neighbours:shape", "make_channel_index(radius=%r) has shape %r, expected (%d, %d)" % (radius, nb.shape, nc, width))])
    for c in range(nc):
        exp = np.r_[ref_rows[c], np.full(width - len(ref_rows[c]), nc)]
        if not np.array_equal(nb[c], exp):
            seen.setdefault("neighbours", "radius %r channel %d: neighbours %r, expected the channels within the radius in ascending order %r" % (radius, c, nb[c].tolist(), exp.tolist()))
    # every spike position whose window fits, for this peak channel
    samples = np.arange(TROUGH, ns - (LENGTH - TROUGH))
    df = pd.DataFrame({"sample": samples, "peak_channel": np.full(samples.size, pc)})
    wfs, cind, off = wx.extract_wfs_array(arr.copy(), df, nb, trough_offset=TROUGH, spike_length_samples=LENGTH, add_nan_trace=True)
    arrn = np.vstack([arr, np.full((1, ns), np.nan)])
    if wfs.shape != (samples.size, width, LENGTH):
        seen.setdefault("array:shape", "extract_wfs_array returns shape %r" % (wfs.shape,))
    else:
        exp_c = np.r_[ref_rows[pc], np.full(width - len(ref_rows[pc]), nc)]
        for i, s in enumerate(samples):
            exp = arrn[exp_c][:, s - TROUGH:s - TROUGH + LENGTH]
            if not np.array_equal(wfs[i], exp, equal_nan=True):
                seen.setdefault("array:values", "spike at %d on channel %d (radius %r): waveform differs from the source window [%d, %d) on channels %r"
                                % (s, pc, radius, s - TROUGH, s - TROUGH + LENGTH, exp_c.tolist()))
                break
        if not np.array_equal(cind, np.tile(exp_c, (samples.size, 1))):
            seen.setdefault("array:channels", "returned channel indices differ from the neighbourhood of the peak channel")
    # the two ways of naming the padding (pad_val = number of channels, or -1 = "the last row") x the two ways of supplying the NaN row
    # (added by the call, or already carried by the array): the same waveforms
    ncomb = 0
    sub = samples[:: max(1, samples.size // 25)]
    dfs = pd.DataFrame({"sample": sub, "peak_channel": np.full(sub.size, pc)})
    exp_c = np.r_[ref_rows[pc], np.full(width - len(ref_rows[pc]), nc)]
    for pad in (None, -1):
        try:
            nbp = utils.make_channel_index(xy, radius=radius) if pad is None else utils.make_channel_index(xy, radius=radius, pad_val=pad)
        except Exception as e:
            seen.setdefault("neighbours:pad:exc", "make_channel_index(pad_val=%r): %s: %s" % (pad, type(e).__name__, e))
            continue
        padded = np.r_[np.zeros(len(ref_rows[pc]), bool), np.ones(width - len(ref_rows[pc]), bool)]
        if nbp.shape != (nc, width) or not np.array_equal(nbp[pc][~padded], ref_rows[pc]) or not np.all(nbp[pc][padded] == (nc if pad is None else pad)):
            seen.setdefault("neighbours:pad", "make_channel_index(radius=%r, pad_val=%r) row %d is %r" % (radius, pad, pc, nbp[pc].tolist() if nbp.ndim == 2 else None))
            continue
        for add in (True, False):
            src = arr.copy() if add else arrn.copy()
            try:
                w2, c2, _ = wx.extract_wfs_array(src, dfs, nbp, trough_offset=TROUGH, spike_length_samples=LENGTH, add_nan_trace=add)
            except Exception as e:
                seen.setdefault("array:options:exc", "extract_wfs_array(pad_val=%r index, add_nan_trace=%r): %s: %s" % (pad, add, type(e).__name__, e))
                continue
            ncomb += 1
            good = w2.shape == (sub.size, width, LENGTH)
            if good:
                for i, sp in enumerate(sub):
                    if not np.array_equal(w2[i], arrn[exp_c][:, sp - TROUGH:sp - TROUGH + LENGTH], equal_nan=True):
                        good = False
                        break
            if not good:
                seen.setdefault("array:options", "peak channel %d radius %r: channel index padded with %s and add_nan_trace=%r (NaN row %s): the waveforms differ from the source windows "
                                "with NaN on the padded slots" % (pc, radius, "the number of channels" if pad is None else pad, add, "added by the call" if add else "carried by the array"))
    return Res(list(seen.items()), o=(fam, radius), tr=2 + ncomb)


# ------------------------------------------------------------------ table level
NS_TABLE = 1000


class _FakeSr(object):
    ns = NS_TABLE


def table_cases(tier, seed):
    # spike times around both margins; every subset assignment of the 7 times to two units (none / A / B / both)
    return [(a,) for a in range(4 ** 3)]


TIMES = [TROUGH - 1, TROUGH, TROUGH + 1, 500, NS_TABLE - (LENGTH - TROUGH) - 1, NS_TABLE - (LENGTH - TROUGH), NS_TABLE - (LENGTH - TROUGH) + 1]


_TABLE_REC = {}


def _table_public(ss, sc, sch, max_wf, seed):
    """the selection table through the public entry point (used when the private helper is gone): a 1000-sample, 16-site recording, one chunk"""
    d = os.path.join(synth.proc_scratch(), "c13_table")
    if "fbin" not in _TABLE_REC:
        os.makedirs(d, exist_ok=True)
        _TABLE_REC["fbin"] = _recording(d, "NP1", NS_TABLE, nsites=16)[0]
    out = os.path.join(d, "out")
    shutil.rmtree(out, ignore_errors=True)
    os.makedirs(out)
    wx.extract_wfs_cbin(Path(_TABLE_REC["fbin"]), Path(out), ss, sc, sch, max_wf=max_wf, trough_offset=TROUGH, spike_length_samples=LENGTH,
                        chunksize_samples=NS_TABLE, n_jobs=1, preprocess_steps=[], seed=seed)
    return pd.read_parquet(os.path.join(out, "waveforms.table.pqt")), None


def table_check(case):
    a = case[0]
    private = hasattr(wx, "_make_wfs_table")
    seen = {}
    ntr = 0
    first = [(a // 4 ** k) % 4 for k in range(3)]
    for rest in itertools.product(range(4), repeat=4):
        assign = first + list(rest)
        spikes = []
        for t, code in zip(TIMES, assign):
            if code & 1:
                spikes.append((t, 7, 3))
            if code & 2:
                spikes.append((t, 9, 3 if a % 2 else 11))          # the same instant in another unit, on another or on the SAME peak channel
        if not spikes:
            continue
        spikes.sort()
        ss = np.array([s[0] for s in spikes])
        sc = np.array([s[1] for s in spikes])
        sch = np.array([s[2] for s in spikes])
        valid = (ss > TROUGH) & (ss < NS_TABLE - (LENGTH - TROUGH))
        if not valid.any():
            continue            # no extractable spike at all: nothing to select (not covered by the property)
        for max_wf in (1, 2, 3, 4):
            for sd, dt in ((0, np.int64), (1, np.uint64), (5, np.int32), (2, np.uint32)):     # spike times as sorters store them (Kilosort: uint64)
                if not private and (sd not in (0, 1) or max_wf == 3):
                    continue            # through the public entry point (one extraction per table): a reduced grid
                try:
                    if private:
                        try:
                            tab, units = wx._make_wfs_table(_FakeSr(), ss.astype(dt), sc, sch, max_wf=max_wf, trough_offset=TROUGH, spike_length_samples=LENGTH, seed=sd)
                        except TypeError:
                            private = False          # the private helper changed its signature: use the public entry point from here on
                            tab, units = _table_public(ss.astype(dt), sc, sch, max_wf, sd)
                    else:
                        tab, units = _table_public(ss.astype(dt), sc, sch, max_wf, sd)
                    ntr += 1
                except Exception as e:
                    seen.setdefault("table:exc:%s" % type(e).__name__, "spikes %r max_wf=%d: %s: %s" % (spikes, max_wf, type(e).__name__, e))
                    continue
                for u in (7, 9):
                    nvalid = int(np.sum(valid & (sc == u)))
                    rows = tab[tab["cluster"] == u]
                    exp = min(max_wf, nvalid)
                    got = sorted(rows["sample"].tolist())
                    allowed = sorted(ss[valid & (sc == u)].tolist())
                    tag = ":first-spike" if (valid[0] and sc[0] == u) else ""
                    if len(got) != exp or len(set(got)) != len(got) or any(g not in allowed for g in got):
                        seen.setdefault("table:count" + tag, "unit %d has %d spikes outside the margins (%r), max_wf=%d, seed %d, spike times as %s: table holds samples %r (expected %d distinct of them); spikes=%r"
                                        % (u, nvalid, allowed, max_wf, sd, np.dtype(dt).name, got, exp, spikes))
                wi = np.sort(tab["waveform_index"].to_numpy())
                if not np.array_equal(wi, np.arange(len(tab))):
                    seen.setdefault("table:waveform_index", "waveform_index %r is not a permutation of 0..n-1" % (tab["waveform_index"].tolist(),))
    return Res(list(seen.items()), o="t" if private else "t:public-entry-point", tr=ntr)


# ------------------------------------------------------------------ file level with controlled task order
class _Proxy(object):
    """stands for the shared traces memmap handed to the workers: logs every write, forbids reads by the workers"""

    def __init__(self, mm, log):
        self._mm = mm
        self._log = log
        self.shape = mm.shape
        self.dtype = mm.dtype

    def __setitem__(self, key, value):
        rows = key[0] if isinstance(key, tuple) else key
        self._log.append(np.atleast_1d(np.asarray(rows)).astype(int).tolist())
        self._mm[key] = value

    def __getitem__(self, key):
        raise HarnessError("a worker reads the shared traces file: unmodelled dependency between chunk tasks")

    def flush(self):
        self._mm.flush()


class _Seams(object):
    """
    replaces joblib's Parallel / delayed and numpy's open_memmap for one execution, wherever the library refers to them: every attribute of
    ibldsp.waveform_extraction that IS one of these objects, and the attributes of the joblib / numpy.lib.format modules themselves (a call
    written `joblib.Parallel(...)` looks the name up there).  If the fan-out does not go through joblib at all, `ntasks` stays None and
    the caller falls back to a black-box comparison (no control over the task order).
    """

    def __init__(self, order=None):
        self.order = order
        self.log = []
        self.ntasks = None
        self.saved = []

    def __enter__(self):
        import joblib
        import numpy.lib.format as npformat
        seams = self

        def delayed(fn):
            return lambda *a, **k: (fn, a, k)

        class Parallel(object):
            def __init__(self, *a, **k):
                pass

            def __enter__(self):
                return self

            def __exit__(self, *a):
                return False

            def __call__(self, tasks):
                tasks = list(tasks)
                seams.ntasks = (seams.ntasks or 0) + len(tasks)
                order = list(range(len(tasks))) if seams.order is None else seams.order
                if sorted(order) != list(range(len(tasks))):
                    raise HarnessError("schedule %r does not fit %d tasks" % (order, len(tasks)))
                return [tasks[i][0](*tasks[i][1], **tasks[i][2]) for i in order]

        real_open = npformat.open_memmap

        def open_memmap(fn, mode="r+", **kw):
            mm = real_open(fn, mode=mode, **kw)
            if mode == "w+":
                return _Proxy(mm, seams.log)
            return mm
        targets = {id(joblib.Parallel): Parallel, id(joblib.delayed): delayed, id(real_open): open_memmap}
        holders = [wx, joblib, npformat]
        try:
            import joblib.parallel as jp
            holders.append(jp)
        except Exception:
            pass
        for mod in holders:
            for name, val in list(vars(mod).items()):
                if id(val) in targets:
                    self.saved.append((mod, name, val))
                    setattr(mod, name, targets[id(val)])
        return self

    def __exit__(self, *a):
        for mod, name, val in self.saved:
            setattr(mod, name, val)


def _recording(d, fam, ns, nsites=40, mult=31):
    kind, sites, xy = _geom(fam, nsites)
    nc = nsites + 1
    raw = ((np.arange(ns)[:, None] * mult + np.arange(nc)[None, :] * 7919) % 65536 - 32768).astype(np.int16)
    gains = [(synth.GAINS[(i * 3) % 8], 250) for i in range(nsites)]
    fbin = synth.write_recording(d, "wf_g0_t0.imec0.ap", raw, synth.meta_items(kind, sites, ns, gains=gains))
    s2v = synth.ref_s2v(kind, "ap", nsites, 1, gains=gains)
    order = synth.ref_sort_order(sites)
    cal = refmodel.calibrated(raw, s2v)[:, order + [nsites]].astype(np.float32)        # what the (sorted) reader returns
    xy_sorted = xy[order]
    return fbin, cal, xy_sorted


def _spike_train(ns, chunks, nsites, variant, gap=None):
    """spikes at the margins, on chunk boundaries of every chunk size, duplicates across units; gap = (start, stop): no spike in that stretch (whole chunks without a spike)"""
    times = {TROUGH - 1, TROUGH, TROUGH + 1, ns - (LENGTH - TROUGH) - 1, ns - (LENGTH - TROUGH), ns - 1}
    for c in chunks:
        for k in range(1, ns // c + 1):
            for dd in (-1, 0, 1, TROUGH, -TROUGH):
                t = k * c + dd
                if 0 <= t < ns:
                    times.add(t)
    rng = np.random.default_rng(variant)
    times |= set(int(x) for x in rng.integers(0, ns, 25))
    if gap is not None:
        times = {t for t in times if not (gap[0] <= t < gap[1])}
    spikes = []
    for j, t in enumerate(sorted(times)):
        spikes.append((t, j % 3, (j * 7 + variant) % nsites))
        if j % 4 == 0:
            # same time in another unit, every other time on the same peak channel too
            spikes.append((t, 3 + (j % 2), (j * 7 + variant) % nsites if j % 8 == 0 else (j * 5 + 1) % nsites))
    spikes.sort()
    dt = (np.int64, np.uint64, np.int32, np.uint32)[variant % 4]          # spike times as sorters store them (Kilosort: uint64)
    return (np.array([s[0] for s in spikes]).astype(dt), np.array([s[1] for s in spikes]), np.array([s[2] for s in spikes]))


def _run_extract(fbin, outdir, spikes, max_wf, chunk, order, seed):
    if os.path.isdir(outdir):
        shutil.rmtree(outdir)
    os.makedirs(outdir)
    with _Seams(order) as sm:
        wx.extract_wfs_cbin(Path(fbin), Path(outdir), spikes[0], spikes[1], spikes[2], max_wf=max_wf, trough_offset=TROUGH,
                            spike_length_samples=LENGTH, chunksize_samples=chunk, n_jobs=3, preprocess_steps=[], seed=seed)
    return sm          # sm.ntasks is None when the fan-out did not go through joblib: the caller then compares results only (black box)


def _verify_output(outdir, cal, xy, spikes, max_wf, ns, seen, ctx):
    tab = pd.read_parquet(os.path.join(outdir, "waveforms.table.pqt"))
    traces = np.load(os.path.join(outdir, "waveforms.traces.npy"))
    templates = np.load(os.path.join(outdir, "waveforms.templates.npy"))
    channels = np.load(os.path.join(outdir, "waveforms.channels.npz"))["channels"]
    nc = cal.shape[1] - 1
    d = np.sqrt(((xy[:, None, :] - xy[None, :, :]) ** 2).sum(-1))
    nbrows = [np.flatnonzero(d[c] <= 200.0) for c in range(nc)]
    width = max(len(r) for r in nbrows)
    n = len(tab)
    ss, sc, sch = spikes
    valid = (ss > TROUGH) & (ss < ns - (LENGTH - TROUGH))
    if traces.shape != (n, width, LENGTH) or channels.shape != (n, width):
        seen.setdefault("file:shapes", "%s: traces %r channels %r for %d table rows, neighbourhood width %d" % (ctx, traces.shape, channels.shape, n, width))
        return
    if not np.array_equal(tab["waveform_index"].to_numpy(), np.arange(n)):
        seen.setdefault("file:row-order", "%s: table rows are not in the order of the traces file (waveform_index %r...)" % (ctx, tab["waveform_index"].tolist()[:8]))
    caln = np.vstack([cal[:, :nc].T, np.full((1, cal.shape[0]), np.nan, dtype=np.float32)])
    for r in range(n):
        s, pc, cl = int(tab["sample"].iloc[r]), int(tab["peak_channel"].iloc[r]), int(tab["cluster"].iloc[r])
        row = int(tab["waveform_index"].iloc[r])
        expc = np.r_[nbrows[pc], np.full(width - len(nbrows[pc]), nc)]
        exp = caln[expc][:, s - TROUGH:s - TROUGH + LENGTH]
        if exp.shape != (width, LENGTH) or not np.array_equal(np.isnan(traces[row]), np.isnan(exp)) or \
                not np.allclose(np.nan_to_num(traces[row]), np.nan_to_num(exp), rtol=4e-7, atol=0):
            kind = "file:values"
            if exp.shape == (width, LENGTH) and np.array_equal(np.isnan(traces[row]), np.isnan(exp)):
                # is it another spike's window?
                kind = "file:values"
            seen.setdefault(kind, "%s: traces row %d (sample %d, peak channel %d, unit %d) differs from the source window [%d, %d) on the neighbourhood"
                            % (ctx, row, s, pc, cl, s - TROUGH, s - TROUGH + LENGTH))
            break
        if not np.array_equal(channels[row], expc):
            seen.setdefault("file:channels", "%s: channel map row %d is %r, neighbourhood of channel %d is %r" % (ctx, row, channels[row].tolist(), pc, expc.tolist()))
            break
    # each unit: min(max_wf, #valid) distinct spikes, all of them real valid spikes of that unit
    for u in np.unique(sc):
        mine = valid & (sc == u)
        rows = tab[tab["cluster"] == u]
        got = sorted(zip(rows["sample"].tolist(), rows["peak_channel"].tolist()))
        allowed = sorted(zip(ss[mine].tolist(), sch[mine].tolist()))
        exp_n = min(max_wf, int(mine.sum()))
        if len(got) != exp_n or len(set(got)) != len(got) or any(g not in allowed for g in got):
            first = bool(mine[0])
            seen.setdefault("file:count" + (":first-spike" if first else ""), "%s: unit %d has %d extractable spikes, max_wf=%d: %d rows saved (%d distinct, all valid: %s)"
                            % (ctx, u, int(mine.sum()), max_wf, len(got), len(set(got)), all(g in allowed for g in got)))
    # templates = median over the unit's rows
    units = np.unique(sc)
    if templates.shape[0] != units.size:
        seen.setdefault("file:templates:shape", "%s: %d templates for %d units" % (ctx, templates.shape[0], units.size))
    else:
        for i, u in enumerate(units):
            rows = tab.index[tab["cluster"] == u] if False else np.flatnonzero(tab["cluster"].to_numpy() == u)
            if rows.size == 0:
                continue
            import warnings
            with warnings.catch_warnings():
                warnings.simplefilter("ignore")
                exp = np.nanmedian(traces[tab["waveform_index"].to_numpy()[rows]], axis=0)
            if not np.allclose(templates[i], exp, rtol=1e-6, atol=0, equal_nan=True):
                seen.setdefault("file:templates", "%s: template of unit %d is not the median of its saved waveforms" % (ctx, u))
    return tab, traces, channels


def file_cases(tier, seed):
    out = []
    chunks = (500, 777, 1000, 3000, 10000)
    for fam in ("NP1", "NP2"):
        # lengths whose remainder modulo the chunk sizes falls below / inside / above the spike-window margins (86, 128)
        for ns in ((2400, 2100, 2128, 2587) if tier == "quick" else (2400, 2100, 2090, 2128, 2129, 2587, 2086, 2087, 3001, 3100)):
            for max_wf in (2, 5, 1000):
                out.append((fam, ns, max_wf, list(chunks)))
        # silent stretches longer than a chunk: at the start (the first chunk that holds spikes is not the first chunk of the file), in the middle, at the end
        for gap in ((0, 1000), (600, 1600), (1500, 2400)):
            for max_wf in (5, 1000):
                out.append((fam, 2400, max_wf, list(chunks), gap))
    return out


def file_check(case):
    fam, ns, max_wf, chunks = case[:4]
    gap = case[4] if len(case) > 4 else None
    d = os.path.join(synth.proc_scratch(), "c13_%s_%d_%d" % (fam, ns, max_wf))
    os.makedirs(d, exist_ok=True)
    fbin, cal, xy = _recording(d, fam, ns)
    spikes = _spike_train(ns, chunks, 40, variant=max_wf % 7, gap=gap)
    seen = {}
    ntr = 0
    ref_files = None
    mode = "controlled"
    for chunk in chunks:
        # the number of chunk tasks is taken from a first, natural-order execution (not recomputed here)
        out = os.path.join(d, "out")
        try:
            sm0 = _run_extract(fbin, out, spikes, max_wf, chunk, None, seed=3)
            ntr += 1
            # None: not dispatched through joblib (one natural-order execution, results compared only); 0: joblib was handed no task at all (the only schedule is the empty one)
            nchunks = sm0.ntasks if sm0.ntasks is not None else 1
            if sm0.ntasks is None:
                mode = "black-box (fan-out not through joblib)"
        except HarnessError:
            raise
        except Exception as e:
            seen.setdefault("file:exc:%s" % type(e).__name__, "%s ns=%d max_wf=%d chunk=%d: %s: %s" % (fam, ns, max_wf, chunk, type(e).__name__, e))
            continue
        # every execution order of the chunk tasks (<= 120 orders), otherwise natural / reversed / rotations
        if nchunks <= 5:
            orders = list(itertools.permutations(range(nchunks)))
        else:
            base = list(range(nchunks))
            orders = [base, base[::-1]] + [base[k:] + base[:k] for k in range(1, nchunks)]
        outcome = None
        for oi, order in enumerate(orders):
            out = os.path.join(d, "out")
            ctx = "%s ns=%d max_wf=%d%s chunk=%d order=%r" % (fam, ns, max_wf, "" if gap is None else " no spike in [%d, %d)" % gap, chunk, list(order))
            try:
                sm = _run_extract(fbin, out, spikes, max_wf, chunk, list(order), seed=3)
                ntr += 1
            except HarnessError:
                raise
            except Exception as e:
                seen.setdefault("file:exc:%s" % type(e).__name__, "%s: %s: %s" % (ctx, type(e).__name__, e))
                continue
            traces = np.load(os.path.join(out, "waveforms.traces.npy"))
            # write log: every row written exactly once, by disjoint tasks
            allrows = [r for w in sm.log for r in w]
            if sm.log and sorted(allrows) != list(range(traces.shape[0])):
                dup = sorted({r for r in allrows if allrows.count(r) > 1})[:5]
                missing = sorted(set(range(traces.shape[0])) - set(allrows))[:5]
                seen.setdefault("file:write-once", "%s: rows written twice %r, never written %r" % (ctx, dup, missing))
            sig = tuple(open(os.path.join(out, f), "rb").read() for f in ("waveforms.traces.npy", "waveforms.templates.npy"))
            if oi == 0:
                res = _verify_output(out, cal, xy, spikes, max_wf, ns, seen, ctx)
                outcome = sig
                tabsig = pd.read_parquet(os.path.join(out, "waveforms.table.pqt")).to_dict("list")
                if ref_files is None:
                    ref_files = (sig, tabsig, chunk)
                elif sig != ref_files[0] or tabsig != ref_files[1]:
                    seen.setdefault("file:chunk-size", "%s: saved files differ from those obtained with chunk size %d" % (ctx, ref_files[2]))
                if res is not None and oi == 0 and chunk == chunks[0]:
                    _loader_check(out, seen, ctx)
            elif sig != outcome:
                seen.setdefault("file:task-order", "%s: traces/templates differ from the natural task order" % ctx)
    # another recording written to the SAME path, extracted in the same process: nothing of the first one may survive
    os.unlink(fbin)            # replaced, not overwritten: a stale mapping of the old file would keep showing the old samples
    fbin2, cal2, xy2 = _recording(d, fam, ns, mult=17)
    assert fbin2 == fbin
    out = os.path.join(d, "out")
    ctx = "%s ns=%d max_wf=%d second recording at the same path" % (fam, ns, max_wf)
    try:
        _run_extract(fbin, out, spikes, max_wf, 1000, None, seed=3)
        ntr += 1
        before = len(seen)
        _verify_output(out, cal2, xy2, spikes, max_wf, ns, seen, ctx)
        if len(seen) > before and "file:values" in seen and ctx in seen["file:values"]:
            seen["file:stale-recording"] = seen.pop("file:values")
    except HarnessError:
        raise
    except Exception as e:
        seen.setdefault("file:exc:%s" % type(e).__name__, "%s: %s: %s" % (ctx, type(e).__name__, e))
    return Res(list(seen.items()), o=(fam, max_wf, mode, gap), tr=ntr)


def many_cases(tier, seed):
    from mc import thresholds
    ths = thresholds.beyond(thresholds.mine([wx], 100, 2000), extra=(257, 301), cap=1200)
    return [(mw,) for mw in sorted(set(ths))[-4:]]


def many_check(case):
    """a unit with more waveforms than any size constant in the extractor's source (max_wf above it): table, traces, loader still agree row by row"""
    max_wf = case[0]
    ns = 60000
    d = os.path.join(synth.proc_scratch(), "c13_many_%d" % max_wf)
    os.makedirs(d, exist_ok=True)
    fbin, cal, xy = _recording(d, "NP1", ns, nsites=16)
    n_big = max_wf + 150
    t_big = (TROUGH + 5 + np.arange(n_big) * ((ns - 300) // n_big)).astype(np.int64)
    t_small = np.array([777, 5000, 5001, 30000, 59000], dtype=np.int64)
    ss = np.r_[t_big, t_small]
    sc = np.r_[np.full(n_big, 4), np.full(t_small.size, 9)]
    sch = np.r_[(np.arange(n_big) * 5) % 16, np.array([1, 2, 3, 4, 15])]
    o = np.argsort(ss, kind="stable")
    spikes = (ss[o], sc[o], sch[o])
    seen = {}
    out = os.path.join(d, "out")
    ctx = "unit of %d spikes, max_wf=%d" % (n_big, max_wf)
    try:
        _run_extract(fbin, out, spikes, max_wf, 10000, None, seed=1)
        res = _verify_output(out, cal, xy, spikes, max_wf, ns, seen, ctx)
        if res is not None:
            _loader_check(out, seen, ctx)
            tab = res[0]
            for u in (4, 9):
                iw = tab["index_within_clusters"].to_numpy()[tab["cluster"].to_numpy() == u] if "index_within_clusters" in tab.columns else None
                if iw is not None and sorted(np.asarray(iw).astype(int).tolist()) != list(range(len(iw))):
                    seen.setdefault("file:index_within_clusters", "%s: unit %d: index_within_clusters is not 0..%d (max %d, %d distinct values)"
                                    % (ctx, u, len(iw) - 1, int(np.max(iw)), len(set(np.asarray(iw).tolist()))))
    except HarnessError:
        raise
    except Exception as e:
        seen.setdefault("file:exc:%s" % type(e).__name__, "%s: %s: %s" % (ctx, type(e).__name__, e))
    shutil.rmtree(d, ignore_errors=True)
    return Res(list(seen.items()), o=max_wf, tr=1)


def _loader_check(out, seen, ctx):
    try:
        # other files lying in the output folder (a backup / uuid-suffixed leftover of an earlier extraction, holding other values): the loader returns what was SAVED
        decoys = []
        try:
            t0 = np.load(os.path.join(out, "waveforms.traces.npy"))
            for fn, arr in (("waveforms.traces.00aa11bb.npy", np.zeros_like(t0)), ("waveforms.traces.bak.npy", t0[::-1].copy()), ("waveforms.templates.0000.npy", np.zeros((1, 1, 1)))):
                np.save(os.path.join(out, fn), arr)
                decoys.append(os.path.join(out, fn))
            import shutil as _sh
            for src_, fn in (("waveforms.table.pqt", "waveforms.table.00aa11bb.pqt"), ("waveforms.channels.npz", "waveforms.channels.00aa11bb.npz")):
                _sh.copy(os.path.join(out, src_), os.path.join(out, fn))
                decoys.append(os.path.join(out, fn))
            tb = pd.read_parquet(os.path.join(out, "waveforms.table.pqt"))
            tb.iloc[::-1].reset_index(drop=True).to_parquet(os.path.join(out, "waveforms.table.00aa11bb.pqt"))
        except Exception:
            pass
        wl = wx.WaveformsLoader(out, trough_offset=TROUGH)
        tab = pd.read_parquet(os.path.join(out, "waveforms.table.pqt")).reset_index(drop=True)
        traces = np.load(os.path.join(out, "waveforms.traces.npy"))
        channels = np.load(os.path.join(out, "waveforms.channels.npz"))["channels"]
        units = sorted(set(tab["cluster"].tolist()))
        sizes = [int((tab["cluster"] == u).sum()) for u in units]
        kmin, kmax = min(sizes), max(sizes)
        # indices that only some units have (the table is ragged: units hold different numbers of waveforms), as lists and arrays
        for labels in ([units[0]], units[:2], units, [units[-1], units[0]], np.array(units[:1]), [units[int(np.argmin(sizes))]], [units[int(np.argmin(sizes))], units[int(np.argmax(sizes))]]):
            for indices in (None, [0], [0, 1], list(range(kmax)), np.arange(kmin + 1), [kmin], [kmax - 1, 0]):
                w, info, ch = wl.load_waveforms(labels=labels, indices=indices)
                sel = tab["cluster"].isin(list(labels)).to_numpy()
                if indices is not None:
                    sel = sel & tab["index_within_clusters"].isin(list(indices)).to_numpy()
                rows = np.flatnonzero(sel)
                if w.shape[0] != rows.size or not np.array_equal(w, traces[rows], equal_nan=True) or not np.array_equal(ch, channels[rows]) \
                        or info["sample"].tolist() != tab["sample"].iloc[rows].tolist():
                    seen.setdefault("loader", "%s: load_waveforms(labels=%r, indices=%r) does not return the saved rows (units hold %r waveforms)" % (ctx, list(labels), None if indices is None else list(indices), sizes))
        # index_within_clusters counts 0.. within each unit
        for u in units:
            iw = tab["index_within_clusters"][tab["cluster"] == u].tolist()
            if iw != list(range(len(iw))):
                seen.setdefault("loader:index_within_clusters", "%s: unit %d index_within_clusters %r" % (ctx, u, iw))
    except Exception as e:
        seen.setdefault("loader:exc:%s" % type(e).__name__, "%s: loader raised %s: %s" % (ctx, type(e).__name__, e))
    finally:
        for f in locals().get("decoys", []):
            try:
                os.unlink(f)
            except OSError:
                pass


# ------------------------------------------------------------------ conformance: one free-running real joblib run
def cbin_cases(tier, seed):
    return [("NP1", 2400, 5, scratch) for scratch in (False, True)] + [("NP2", 2587, 1000, True)]


def cbin_check(case):
    """a compressed recording gives the same files as its uncompressed original"""
    fam, ns, max_wf, use_scratch = case
    d = os.path.join(synth.proc_scratch(), "c13_cbin")
    shutil.rmtree(d, ignore_errors=True)
    os.makedirs(d)
    fbin, cal, xy = _recording(d, fam, ns)
    spikes = _spike_train(ns, (500, 777, 1000, 3000, 10000), 40, variant=3)
    seen = {}
    out1, out2 = os.path.join(d, "o_bin"), os.path.join(d, "o_cbin")
    _run_extract(fbin, out1, spikes, max_wf, 777, None, seed=3)
    sr = spikeglx.Reader(fbin)
    fc = str(sr.compress_file(keep_original=False))
    sr.close()
    scratch = Path(d) / "scratch" if use_scratch else None
    os.makedirs(out2)
    with _Seams(None) as sm:
        wx.extract_wfs_cbin(Path(fc), Path(out2), spikes[0], spikes[1], spikes[2], max_wf=max_wf, trough_offset=TROUGH, spike_length_samples=LENGTH,
                            chunksize_samples=777, n_jobs=2, preprocess_steps=[], seed=3, scratch_dir=scratch)
    for f in ("waveforms.traces.npy", "waveforms.templates.npy", "waveforms.channels.npz"):
        if open(os.path.join(out1, f), "rb").read() != open(os.path.join(out2, f), "rb").read():
            seen.setdefault("cbin-input:differs", "%s extracted from the compressed recording differs from the one extracted from the uncompressed original" % f)
    # (observation, not asserted - the property does not speak about the input files: with scratch_dir=None the function deletes the
    #  recording's own .meta together with the temporary .bin it decompressed next to the .cbin)
    return Res(list(seen.items()), o=use_scratch, tr=2)


def joblib_cases(tier, seed):
    return [("NP1", 2400, 5, 777, 2)] + ([("NP2", 3001, 1000, 500, 4)] if tier == "thorough" else [])


def joblib_check(case):
    fam, ns, max_wf, chunk, njobs = case
    d = os.path.join(synth.proc_scratch(), "c13_joblib")
    os.makedirs(d, exist_ok=True)
    fbin, cal, xy = _recording(d, fam, ns)
    spikes = _spike_train(ns, (500, 777, 1000, 3000, 10000), 40, variant=max_wf % 7)
    seen = {}
    out1, out2 = os.path.join(d, "o1"), os.path.join(d, "o2")
    _run_extract(fbin, out1, spikes, max_wf, chunk, None, seed=3)
    shutil.rmtree(out2, ignore_errors=True)
    os.makedirs(out2)
    wx.extract_wfs_cbin(Path(fbin), Path(out2), spikes[0], spikes[1], spikes[2], max_wf=max_wf, trough_offset=TROUGH,
                        spike_length_samples=LENGTH, chunksize_samples=chunk, n_jobs=njobs, preprocess_steps=[], seed=3)
    for f in ("waveforms.traces.npy", "waveforms.templates.npy"):
        if open(os.path.join(out1, f), "rb").read() != open(os.path.join(out2, f), "rb").read():
            seen.setdefault("joblib:conformance", "%s written by real joblib workers (n_jobs=%d) differs from the controlled execution" % (f, njobs))
    return Res(list(seen.items()), o="joblib", tr=2)


CHECK = {
    "property": "C13",
    "rule": "array: every (geometry, radius, peak channel) with every spike position that fits; table: every assignment of 7 margin times to two units x max_wf x seeds; "
            "file: (geometry, max_wf) x 5 chunk sizes x every execution order of the chunk tasks; non-trivial = all",
    "assumptions": [
        "file level uses preprocess_steps=[] so that equality with the source is exact (with filtering the chunk-independence claim is only approximate and is not asserted)",
        "the chunk tasks share only the traces file; each performs exactly one write to it (asserted: the proxy turns any read into a harness error), "
        "so the interleavings of shared operations are the permutations of the tasks: all of them for <= 5 chunks, natural/reversed/rotations above",
        "recording content is position dependent ((31*sample + 7919*channel) mod 65536), non-uniform gains, 40 sites",
        "the table-level clause calls the private spike selection directly and is skipped if it disappears (the file-level clause covers the same law on fewer trains)",
    ],
    "clauses": [
        Clause("array", "extract_wfs_array / make_channel_index on every peak channel, radius and position", cases=array_cases, check=array_check),
        Clause("table", "spike selection: min(max_wf, #valid) distinct valid spikes per unit", cases=table_cases, check=table_check),
        Clause("file", "extract_wfs_cbin: rows = source, files agree, chunk-size and task-order independence, loader", cases=file_cases, check=file_check),
        Clause("many-waveforms", "a unit with more waveforms than every size constant mined from the extractor's source", cases=many_cases, check=many_check),
        Clause("cbin-input", "compressed input (decompressed next to the file or to a scratch directory): same output files", cases=cbin_cases, check=cbin_check),
        Clause("joblib", "free-running joblib conformance point", cases=joblib_cases, check=joblib_check, serial=True),
    ],
}
