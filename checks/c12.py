"""
C12 - LFP extraction equals low-pass plus decimation, independent of windowing.  Engine E1.
"""
import os
import shutil

import numpy as np
import scipy.signal

from mc.engine import Clause, Res
from mc import synth, np2

import spikeglx

SEED = [0]
RATIO = 12
EDGE = 30          # LF samples next to either file edge where the whole-trace comparison is not made


def _setup(tier, seed):
    SEED[0] = seed


def ns_list(tier):
    wins = (588, 600, 648, 1200)
    out = set()
    for w in wins:
        stride = w - 576
        seams = {w, 2 * w - 576, 3 * w - 2 * 576, w + 5 * stride}
        for s in seams:
            for dd in range(-14, 15):
                out.add(s + dd)
    out |= set(range(300, 3101, 47 if tier == "quick" else 1))
    out |= {300, 301, 311, 312, 313, 3100}
    return sorted(n for n in out if 300 <= n <= 3100)


def lf_cases(tier, seed):
    return [(layout, ns) for layout in ("NP2.4", "NP2.1") for ns in ns_list(tier)]


def _run(root, layout, ns, data, w):
    np2.clean(root)
    if layout == "NP2.4":
        sites = np2.sites_for([0, 1, 1, 1])          # uneven shanks: one site on shank 0, three on shank 1
        ap = np2.make_session(root, "NP2.4", sites, data)
    else:
        sites = np2.sites_for([0, 0, 0, 0])
        ap = np2.make_session(root, "NP2.1", sites, data)
    status, conv = np2.convert(ap, nwindow=w, post_check=True, compress=False)
    np2.release(conv)
    out = {}
    if layout == "NP2.4":
        for sh in (0, 1):
            f = os.path.join(np2.shank_folder(root, sh), np2.STEM + ".lf.bin")
            cols = [i for i, s in enumerate(sites) if s[0] == sh] + [4]
            out[sh] = (f, cols)
    else:
        out[0] = (os.path.join(root, np2.LABEL, np2.STEM + ".lf.bin"), [0, 1, 2, 3, 4])
    return status, out


def lf_check(case):
    layout, ns = case
    root = os.path.join(synth.proc_scratch(), "c12")
    data = np2.content(ns, 5, "broadband", seed=SEED[0] + ns)
    if ns % 3 == 0:
        # large slow signals, far above the 13-bit range of the ADC codes but well inside int16: a 20 Hz swing of +-20000 counts, offsets of +15000 and -25000 counts
        big = data.astype(np.int64)
        big[:, 0] += np.round(20000 * np.sin(2 * np.pi * 20 * np.arange(ns) / 30000.0)).astype(np.int64)
        big[:, 1] += 15000
        big[:, 2] -= 25000
        data = np.clip(big, -32768, 32767).astype(np.int16)
    nlf = -(-ns // RATIO)
    seen = {}
    ntr = 0
    results = {}
    wins = [588, 600, 648, 1200, 60000]
    s2v = 0.5 / 8192 / 80
    sos = scipy.signal.butter(N=2, Wn=1000 / 2500 / 2, btype="lowpass", output="sos")
    for w in wins:
        ctx = "%s ns=%d nwindow=%d" % (layout, ns, w)
        try:
            status, files = _run(root, layout, ns, data, w)
            ntr += 1
        except Exception as e:
            seen.setdefault("lf:exc:%s" % type(e).__name__, "%s: conversion raised %s: %s" % (ctx, type(e).__name__, e))
            continue
        if status != 1:
            seen.setdefault("lf:status", "%s: process() returned %r" % (ctx, status))
            continue
        for sh, (f, cols) in files.items():
            if not os.path.exists(f):
                seen.setdefault("lf:missing", "%s: %s not written" % (ctx, f))
                continue
            raw = np.fromfile(f, dtype=np.int16)
            ncol = len(cols)
            if raw.size != nlf * ncol:
                seen.setdefault("lf:length", "%s: LF file of shank %d holds %d values = %.2f samples of %d channels, expected ceil(%d/12) = %d samples"
                                % (ctx, sh, raw.size, raw.size / ncol, ncol, ns, nlf))
                continue
            lf = raw.reshape(nlf, ncol)
            results[(w, sh)] = lf
            if not np.array_equal(lf[:, -1], data[::RATIO, -1]):
                bad = int(np.flatnonzero(lf[:, -1] != data[::RATIO, -1])[0])
                seen.setdefault("lf:sync", "%s: LF sync column is not every 12th AP sync word (first difference at LF sample %d: %d vs %d)"
                                % (ctx, bad, lf[bad, -1], data[::RATIO, -1][bad]))
            # whole-trace reference away from the two file edges
            volts = data[:, cols[:-1]].astype(np.float32).astype(np.float64) * s2v
            ref = scipy.signal.sosfiltfilt(sos, volts, axis=0)[::RATIO] / s2v
            if nlf > 2 * EDGE + 2:
                dd = np.abs(lf[EDGE:-EDGE, :-1].astype(np.float64) - ref[EDGE:-EDGE])
                if dd.max() > 1.0 + 1e-6:
                    t, c = np.unravel_index(np.argmax(dd), dd.shape)
                    seen.setdefault("lf:whole-trace", "%s: LF of shank %d differs from low-pass(whole trace)[::12] by %.2f LSB at LF sample %d (channel %d)"
                                    % (ctx, sh, dd.max(), t + EDGE, c))
            # metadata / reader
            try:
                sr = spikeglx.Reader(f, sort=False)
                shape, fs, typ = tuple(sr.shape), sr.fs, sr.type
                nsavedmeta = int(sr.meta["nSavedChans"])
                aplf = [int(x) for x in sr.meta["snsApLfSy"]]
                sr.close()
                back = np2.read_raw(f, shape[1])
                if shape != (nlf, ncol) or not np.array_equal(back, lf):
                    seen.setdefault("lf:reader-shape", "%s: LF file opens with shape %r, its content is %r" % (ctx, shape, (nlf, ncol)))
                if float(fs) != 2500.0 or typ != "lf":
                    seen.setdefault("lf:meta-rate", "%s: LF metadata declares fs=%r type=%r" % (ctx, fs, typ))
                if nsavedmeta != ncol or aplf != [0, ncol - 1, 1]:
                    seen.setdefault("lf:meta-counts", "%s: LF metadata declares nSavedChans=%d snsApLfSy=%r, %d channels were written" % (ctx, nsavedmeta, aplf, ncol))
            except Exception as e:
                seen.setdefault("lf:reader-exc", "%s: LF file does not open: %s: %s" % (ctx, type(e).__name__, e))
    # independence of the window size: pairwise within 1 LSB
    keys = sorted(results)
    for sh in {k[1] for k in keys}:
        ws = [k[0] for k in keys if k[1] == sh]
        base = results[(ws[0], sh)].astype(np.int32)
        for w in ws[1:]:
            other = results[(w, sh)].astype(np.int32)
            dd = np.abs(other - base)
            if dd.max() > 1:
                t, c = np.unravel_index(np.argmax(dd), dd.shape)
                seen.setdefault("lf:window-dependence", "%s ns=%d: LF with nwindow=%d differs from nwindow=%d by %d LSB at LF sample %d channel %d"
                                % (layout, ns, w, ws[0], dd.max(), t, c))
    shutil.rmtree(root, ignore_errors=True)
    return Res(list(seen.items()), o=(layout, ns % RATIO == 0), tr=ntr)


def wsweep_cases(tier, seed):
    top = 1321 if tier == "quick" else 3001
    out = [(layout, w) for layout in ("NP2.4", "NP2.1") for w in range(588, top, 12)]
    if tier == "thorough":
        out += [("NP2.1", w) for w in range(3000, 20001, 12 * 7)]
    return out


def wsweep_check(case):
    """every processing-window size: LF length, sync, and equality with the single-window conversion"""
    layout, w = case
    root = os.path.join(synth.proc_scratch(), "c12w")
    ns = 3 * w + 7 if w < 3000 else 2 * w + 5
    data = np2.content(ns, 5, "broadband", seed=SEED[0] + 3)
    nlf = -(-ns // RATIO)
    v = []
    res = {}
    for ww in (w, 12 * ns):
        try:
            status, files = _run(root, layout, ns, data, ww)
        except Exception as e:
            return Res([("lf:exc:%s" % type(e).__name__, "%s ns=%d nwindow=%d: %s: %s" % (layout, ns, ww, type(e).__name__, e))])
        for sh, (f, cols) in files.items():
            raw = np.fromfile(f, dtype=np.int16)
            if raw.size != nlf * len(cols):
                v.append(("lf:length", "%s ns=%d nwindow=%d: LF file of shank %d holds %.2f samples, expected ceil(ns/12) = %d" % (layout, ns, ww, sh, raw.size / len(cols), nlf)))
                return Res(v)
            res[(ww, sh)] = raw.reshape(nlf, len(cols))
            if not np.array_equal(res[(ww, sh)][:, -1], data[::RATIO, -1]):
                v.append(("lf:sync", "%s ns=%d nwindow=%d: LF sync is not every 12th AP sync word" % (layout, ns, ww)))
    for (ww, sh), a in res.items():
        if ww == w:
            b = res[(12 * ns, sh)]
            if np.max(np.abs(a.astype(int) - b.astype(int))) > 1:
                v.append(("lf:window-dependence", "%s ns=%d: LF with nwindow=%d differs from the single-window conversion by %d LSB" % (layout, ns, w, int(np.max(np.abs(a.astype(int) - b.astype(int)))))))
    shutil.rmtree(root, ignore_errors=True)
    return Res(v, o=(layout,), tr=2)


def count_cases(tier, seed):
    return [(layout, k) for layout in ("NP2.1", "NP2.4") for k in (1, 2, 3, 5, 6, 7, 9, 10, 13)]


def count_check(case):
    """every channel of a recording with any number of saved channels is filtered (channel counts that are no multiple of 2, 4, 8)"""
    layout, k = case
    root = os.path.join(synth.proc_scratch(), "c12n")
    np2.clean(root)
    ns = 1811
    data = np2.content(ns, k + 1, "broadband", seed=SEED[0] + 100 + k)
    assign = [0] * k if layout == "NP2.1" else [(i * 2) % 3 for i in range(k)]
    sites = np2.sites_for(assign)
    ap = np2.make_session(root, layout, sites, data)
    nlf = -(-ns // RATIO)
    s2v = 0.5 / 8192 / 80
    sos = scipy.signal.butter(N=2, Wn=1000 / 2500 / 2, btype="lowpass", output="sos")
    v = []
    try:
        status, conv = np2.convert(ap, nwindow=600, post_check=True, compress=False)
        np2.release(conv)
        if status != 1:
            v.append(("lf:channel-count:status", "%s with %d channels: process() returned %r" % (layout, k, status)))
        groups = {0: list(range(k))} if layout == "NP2.1" else {sh: [i for i, a in enumerate(assign) if a == sh] for sh in sorted(set(assign))}
        for sh, cols in groups.items():
            f = os.path.join(root, np2.LABEL, np2.STEM + ".lf.bin") if layout == "NP2.1" else os.path.join(np2.shank_folder(root, sh), np2.STEM + ".lf.bin")
            raw = np.fromfile(f, dtype=np.int16)
            if raw.size != nlf * (len(cols) + 1):
                v.append(("lf:length", "%s with %d channels: LF file of shank %d holds %d values, expected %d x %d" % (layout, k, sh, raw.size, nlf, len(cols) + 1)))
                continue
            lf = raw.reshape(nlf, len(cols) + 1)
            volts = data[:, cols].astype(np.float32).astype(np.float64) * s2v
            ref = scipy.signal.sosfiltfilt(sos, volts, axis=0)[::RATIO] / s2v
            dd = np.abs(lf[EDGE:-EDGE, :-1].astype(np.float64) - ref[EDGE:-EDGE])
            if dd.max() > 1.0 + 1e-6:
                t, c = np.unravel_index(np.argmax(dd), dd.shape)
                v.append(("lf:whole-trace:channel-count", "%s with %d saved channels: LF channel %d of shank %d differs from low-pass(whole trace)[::12] by %.1f LSB (LF sample %d)"
                          % (layout, k, c, sh, dd.max(), t + EDGE)))
            if not np.array_equal(lf[:, -1], data[::RATIO, -1]):
                v.append(("lf:sync", "%s with %d channels: LF sync column is not every 12th AP sync word" % (layout, k)))
    except Exception as e:
        v.append(("lf:channel-count:exc:%s" % type(e).__name__, "%s with %d channels: %s: %s" % (layout, k, type(e).__name__, e)))
    shutil.rmtree(root, ignore_errors=True)
    return Res(v, o=(layout, k % 4), tr=1)


def scale_cases(tier, seed):
    """windows holding more values (channels x samples) than every size constant found in the converter's source"""
    import neuropixel
    from mc import thresholds
    out = []
    for t in thresholds.mine([neuropixel], 5000, 30_000_000):
        nch = 6 if t < 2_000_000 else 48
        nwindow = max(588, -(-(t // nch + 1) // 12) * 12 + 12)
        out.append((nch, nwindow, nwindow + 2411, t))
    return out or [(6, 6000, 8411, 0)]


def scale_check(case):
    k, nwindow, ns, t = case
    root = os.path.join(synth.proc_scratch(), "c12s")
    np2.clean(root)
    data = np2.content(ns, k + 1, "broadband", seed=SEED[0] + 5)
    ap = np2.make_session(root, "NP2.1", np2.sites_for([0] * k), data)
    nlf = -(-ns // RATIO)
    s2v = 0.5 / 8192 / 80
    sos = scipy.signal.butter(N=2, Wn=1000 / 2500 / 2, btype="lowpass", output="sos")
    v = []
    try:
        status, conv = np2.convert(ap, nwindow=nwindow, post_check=True, compress=False)
        np2.release(conv)
        f = os.path.join(root, np2.LABEL, np2.STEM + ".lf.bin")
        raw = np.fromfile(f, dtype=np.int16)
        if status != 1 or raw.size != nlf * (k + 1):
            v.append(("lf:length", "%d channels, window %d (%d values > %d): status %r, LF holds %d values, expected %d x %d" % (k, nwindow, k * nwindow, t, status, raw.size, nlf, k + 1)))
        else:
            lf = raw.reshape(nlf, k + 1)
            volts = data[:, :k].astype(np.float32).astype(np.float64) * s2v
            ref = scipy.signal.sosfiltfilt(sos, volts, axis=0)[::RATIO] / s2v
            dd = np.abs(lf[EDGE:-EDGE, :-1].astype(np.float64) - ref[EDGE:-EDGE])
            if dd.max() > 1.0 + 1e-6:
                tt, c = np.unravel_index(np.argmax(dd), dd.shape)
                v.append(("lf:whole-trace:large-window", "%d channels, window of %d samples (%d values, beyond the size constant %d): LF differs from low-pass(whole trace)[::12] by %.1f LSB at LF sample %d, channel %d"
                          % (k, nwindow, k * nwindow, t, dd.max(), tt + EDGE, c)))
            if not np.array_equal(lf[:, -1], data[::RATIO, -1]):
                v.append(("lf:sync", "large window: LF sync column is not every 12th AP sync word"))
    except Exception as e:
        v.append(("lf:large-window:exc:%s" % type(e).__name__, "%d channels window %d: %s: %s" % (k, nwindow, type(e).__name__, e)))
    shutil.rmtree(root, ignore_errors=True)
    return Res(v, o=(k,), tr=1)


def rerun_cases(tier, seed):
    return [(layout, same, comp) for layout in ("NP2.1", "NP2.4") for same in (False, True, "reinit-other-window") for comp in (False, True)]


def rerun_check(case):
    """a forced second conversion leaves the same LF stream as the first"""
    import neuropixel
    layout, same_object, compress = case
    root = os.path.join(synth.proc_scratch(), "c12r")
    np2.clean(root)
    ns = 1811
    data = np2.content(ns, 5, "broadband", seed=SEED[0] + 9)
    sites = np2.sites_for([0, 1, 1, 1]) if layout == "NP2.4" else np2.sites_for([0, 0, 0, 0])
    ap = np2.make_session(root, layout, sites, data)
    nlf = -(-ns // RATIO)
    v = []

    def lf_files():
        out = {}
        if layout == "NP2.4":
            for sh in (0, 1):
                out[sh] = os.path.join(np2.shank_folder(root, sh), np2.STEM + ".lf")
        else:
            out[0] = os.path.join(root, np2.LABEL, np2.STEM + ".lf")
        return out

    def read_all():
        res = {}
        for sh, stem in lf_files().items():
            f = stem + (".cbin" if (compress and os.path.exists(stem + ".cbin") and not os.path.exists(stem + ".bin")) else ".bin")
            sr = spikeglx.Reader(f, sort=False)
            shp = tuple(sr.shape)
            sr.close()
            res[sh] = (shp, np2.read_raw(f, shp[1]), os.path.getsize(f) if f.endswith(".bin") else None)
        return res
    try:
        target = ap
        conv = neuropixel.NP2Converter(target, post_check=True, compress=compress)
        conv.init_params(nwindow=600)
        st1 = conv.process()
        first = read_all()
        if not same_object:
            conv.sr.close()
            if layout == "NP2.1" and compress:
                target = ap.with_suffix(".cbin")
            conv = neuropixel.NP2Converter(target, post_check=True, compress=compress)
            conv.init_params(nwindow=600)
        elif same_object == "reinit-other-window":
            conv.init_params(nwindow=720)         # same object, other processing window: window independence allows 1 LSB
        st2 = conv.process(overwrite=True)
        conv.sr.close()
        second = read_all()
        if (st1, st2) != (1, 1):
            v.append(("lf:rerun:status", "%r: statuses %r" % (case, (st1, st2))))
        for sh in first:
            (shape1, a, size1), (shape2, b, size2) = first[sh], second[sh]
            same_lf = np.array_equal(a, b) if same_object != "reinit-other-window" else (
                a.shape == b.shape and np.array_equal(a[:, -1], b[:, -1]) and int(np.max(np.abs(a.astype(int) - b.astype(int)))) <= 1)
            if shape2 != (nlf, a.shape[1]) or not same_lf or (size2 is not None and size2 != nlf * a.shape[1] * 2):
                v.append(("lf:rerun", "%r: after a forced re-conversion the LF file of shank %d has shape %r / %r bytes (first run: %r)" % (case, sh, shape2, size2, shape1)))
    except Exception as e:
        v.append(("lf:rerun:exc:%s" % type(e).__name__, "%r: %s: %s" % (case, type(e).__name__, e)))
    shutil.rmtree(root, ignore_errors=True)
    return Res(v, o=(layout, compress), tr=2)


HIST_OPS = ("P", "O", "N", "I")       # process(), process(overwrite=True), a new converter object, init_params() again


def hist_cases(tier, seed):
    depth = 4 if tier == "quick" else 5
    return [(layout, first, depth) for layout in ("NP2.1", "NP2.4") for first in HIST_OPS]


def hist_check(case):
    """every sequence of calls after a first conversion: after every call the LF stream on disk is the one the first conversion wrote (ceil(n/12) samples)"""
    import itertools
    import neuropixel
    layout, first_op, depth = case
    root = os.path.join(synth.proc_scratch(), "c12h")
    ns = 1811
    data = np2.content(ns, 5, "broadband", seed=SEED[0] + 9)
    sites = np2.sites_for([0, 1, 1, 1]) if layout == "NP2.4" else np2.sites_for([0, 0, 0, 0])
    nlf = -(-ns // RATIO)
    seen = {}
    ntr = 0
    nwords = 0
    outcomes = set()

    def lf_files():
        if layout == "NP2.4":
            return {sh: os.path.join(np2.shank_folder(root, sh), np2.STEM + ".lf.bin") for sh in (0, 1)}
        return {0: os.path.join(root, np2.LABEL, np2.STEM + ".lf.bin")}

    def read_all():
        res = {}
        for sh, f in lf_files().items():
            sr = spikeglx.Reader(f, sort=False)
            shp = tuple(sr.shape)
            sr.close()
            res[sh] = (shp, np2.read_raw(f, shp[1]), os.path.getsize(f))
        return res
    for rest in itertools.product(HIST_OPS, repeat=depth - 1):
        word = ("P", first_op) + rest
        nwords += 1
        np2.clean(root)
        ap = np2.make_session(root, layout, sites, data)
        conv = neuropixel.NP2Converter(ap, post_check=True, compress=False)
        conv.init_params(nwindow=600)
        ref = None
        res = []
        for i, op in enumerate(word):
            ctx = "%s calls %s (P=process, O=process(overwrite=True), N=new converter, I=init_params again)" % (layout, "".join(word[:i + 1]))
            try:
                if op == "P":
                    res.append(conv.process())
                elif op == "O":
                    st = conv.process(overwrite=True)
                    res.append(st)
                    if st != 1:
                        seen.setdefault("history:forced-status", "%s: the forced conversion returned %r" % (ctx, st))
                elif op == "N":
                    try:
                        conv.sr.close()
                    except Exception:
                        pass
                    conv = neuropixel.NP2Converter(ap, post_check=True, compress=False)
                    conv.init_params(nwindow=600)
                    res.append("n")
                else:
                    conv.init_params(nwindow=600)
                    res.append("i")
                ntr += 1
                now = read_all()
            except Exception as e:
                seen.setdefault("history:exc:%s" % type(e).__name__, "%s: %s: %s" % (ctx, type(e).__name__, e))
                break
            if ref is None:
                ref = now
            bad = False
            for sh in ref:
                (shape1, a, size1), (shape2, b, size2) = ref[sh], now[sh]
                if shape2 != (nlf, a.shape[1]) or size2 != nlf * a.shape[1] * 2 or not np.array_equal(a, b):
                    seen.setdefault("history:lf", "%s: the LF file of shank %d has shape %r / %d bytes, expected %r (the first conversion wrote %r)" % (ctx, sh, shape2, size2, (nlf, a.shape[1]), shape1))
                    bad = True
            if bad:
                break
        try:
            conv.sr.close()
        except Exception:
            pass
        outcomes.add(tuple(res))
        if len(seen) > 3:
            break
    shutil.rmtree(root, ignore_errors=True)
    return Res(list(seen.items()), o=(layout, first_op, len(outcomes)), tr=ntr, x=dict(histories=nwords))


def offset_cases(tier, seed):
    return [(off, n) for off in (0, 12, 600, 1201) for n in (1200, 1811)]


def offset_check(case):
    """NP2.1: extracting the LFP of a sub-range [offset, offset + n) equals extracting it from a recording cut to that range"""
    import inspect
    import neuropixel
    off, n = case
    if "offset" not in inspect.signature(neuropixel.NP2Converter._process_NP21).parameters:
        return Res([], o="skipped", nt=False, tr=0)
    root = os.path.join(synth.proc_scratch(), "c12o")
    total = off + n + 50
    data = np2.content(total, 5, "broadband", seed=SEED[0] + total)
    sites = np2.sites_for([0, 0, 0, 0])
    outs = []
    for variant in ("sub-range", "cut"):
        np2.clean(root)
        dd = data if variant == "sub-range" else data[off:off + n]
        ap = np2.make_session(root, "NP2.1", sites, dd)
        conv = neuropixel.NP2Converter(ap, post_check=True, compress=False)
        try:
            if variant == "sub-range":
                conv.init_params(nsamples=n, nwindow=600)
                conv._process_NP21(offset=off)
            else:
                conv.init_params(nwindow=600)
                conv.process()
        finally:
            conv.sr.close()
        f = os.path.join(root, np2.LABEL, np2.STEM + ".lf.bin")
        outs.append(np.fromfile(f, dtype=np.int16).reshape(-1, 5))
    v = []
    a, b = outs
    if a.shape != b.shape:
        v.append(("lf:sub-range:length", "offset=%d n=%d: %d LF samples, the cut recording gives %d" % (off, n, a.shape[0], b.shape[0])))
    else:
        if not np.array_equal(a[:, -1], data[off:off + n:RATIO, -1]):
            v.append(("lf:sub-range:sync", "offset=%d n=%d: the LF sync column is not every 12th sync word of the AP samples the LFP was derived from" % (off, n)))
        if np.max(np.abs(a[:, :-1].astype(int) - b[:, :-1].astype(int))) > 1:
            v.append(("lf:sub-range:values", "offset=%d n=%d: the LFP of the sub-range differs from the LFP of the cut recording" % (off, n)))
    shutil.rmtree(root, ignore_errors=True)
    return Res(v, o=(off > 0,), tr=2)


CHECK = {
    "property": "C12",
    "rule": "one case per (layout, recording length); inside it five processing-window sizes (588, 600, 648, 1200, longer than the file); lengths: every ns within 14 samples of "
            "every window seam plus a stride (thorough: every ns in 300..3100); non-trivial = all",
    "assumptions": [
        "AP content is fixed seeded broadband (random walk + white, +-3000 counts), VERIF_SEED rotates it: the content dimension is not enumerated",
        "whole-trace comparison skips 30 LF samples at either file edge (the per-window taper touches the first and last 144 AP samples)",
        "recordings of 4 sites + sync, NP2.1 and NP2.4 (two shanks); recordings shorter than 300 samples are not covered",
    ],
    "clauses": [
        Clause("lfp", "LF length, sync, window independence, whole-trace equality, metadata", cases=lf_cases, check=lf_check, setup=_setup),
        Clause("window-sweep", "every processing-window size (multiple of 12) from 588 to 1320 (thorough: to 20000)", cases=wsweep_cases, check=wsweep_check, setup=_setup),
        Clause("large-windows", "one window holding more values than every size constant mined from the converter's source", cases=scale_cases, check=scale_check, setup=_setup),
        Clause("channel-counts", "recordings with 1..13 saved channels: every channel is low-passed", cases=count_cases, check=count_check, setup=_setup),
        Clause("folder-neighbours", "the file opens with the shape its OWN metadata declare: UUID dataset names next to another extraction's UUID-less metadata, symlinked data files, band names in folder names "
               "(the reader's companion lookup, shared with C01)",
               cases=lambda tier, seed: __import__("checks.c01", fromlist=["x"]).folder_cases(tier, seed), check=lambda case: __import__("checks.c01", fromlist=["x"]).folder_check(case)),
        Clause("call-histories", "every sequence (4 calls quick / 5 thorough after the first conversion) of process(), process(overwrite=True), new converter object and init_params(): "
               "after every call the LF stream on disk is the one first written", cases=hist_cases, check=hist_check, setup=_setup),
        Clause("rerun", "forced re-conversion (same / fresh converter, compress on/off) reproduces the LF stream", cases=rerun_cases, check=rerun_check, setup=_setup),
        Clause("sub-range", "LFP of a sub-range through the offset entry point = LFP of the cut recording", cases=offset_cases, check=offset_check, setup=_setup),
    ],
}
