"""
C07 - Fourier time shift is an exact, composable delay.  Engine E1.

fshift is linear in the signal for a fixed shift: the impulse basis (identity matrix) decides it for all signals.
"""
import numpy as np

from mc.engine import Clause, Res
from mc import layouts as _layouts

from ibldsp import fourier, utils, waveforms
from neurowaveforms.model import generate_waveform

FRACS = [0.25, -0.25, 0.5, -0.5, 1 / 3, -1 / 3, 1.7, -1.7, 2.5, -0.05]
TOL = {np.dtype("float64"): 1e-10, np.dtype("float32"): 2e-5}


def lengths(tier):
    if tier == "quick":
        return sorted(set(list(range(2, 301)) + [511, 512, 513, 729]))
    ns = set(range(2, 301))
    for p in range(1, 12):
        ns |= {2 ** p - 1, 2 ** p, 2 ** p + 1}
    for p in range(1, 7):
        ns |= {3 ** p - 1, 3 ** p, 3 ** p + 1}
    ns |= {331, 509, 521, 769, 1021, 1031, 1531, 2039, 2048}
    return sorted(n for n in ns if 2 <= n <= 2048)


def basis_cases(tier, seed):
    return [(n, dt) for n in lengths(tier) for dt in ("float64", "float32")]


def _maxerr(a, b):
    return float(np.max(np.abs(np.asarray(a, dtype=np.float64) - np.asarray(b, dtype=np.float64)))) if a.shape == b.shape else float("inf")


def basis_check(case):
    n, dts = case
    dt = np.dtype(dts)
    tol = TOL[dt]
    eye = np.eye(n, dtype=dt)
    v = []
    seen = {}
    ntr = 0

    def bad(k, m):
        seen.setdefault(k, m)
    # integer shifts = circular roll (all shifts in (-n, n) for n <= 300, a structured subset above)
    if n <= 300:
        shifts = list(range(-n + 1, n))
    else:
        shifts = sorted({0, 1, -1, 2, -2, 7, -7, n // 2, -(n // 2), n // 2 + 1, n - 1, -(n - 1), n // 3})
    for s in shifts:
        keep = eye.copy()
        out = fourier.fshift(eye, s, axis=1)
        ntr += 1
        if out.shape != eye.shape or out.dtype != dt:
            bad("shape/dtype", "fshift(eye(%d, %s), %d) has shape %r dtype %s" % (n, dts, s, out.shape, out.dtype))
            break
        if not np.array_equal(eye, keep):
            bad("input-modified", "fshift modified its real input (n=%d, s=%d)" % (n, s))
        err = _maxerr(out, np.roll(eye, s, axis=1))
        if err > tol:
            bad("integer-roll" if s else "zero-identity", "fshift(eye(%d), %d) differs from the circular roll by %.3g" % (n, s, err))
            break
    # along axis 0 (columns are the signals) and negative axis
    for s in (1, -2, n - 1):
        for axis in (0, -1, -2):
            out = fourier.fshift(eye, s, axis=axis)
            ntr += 1
            if _maxerr(out, np.roll(eye, s, axis=axis)) > tol:
                bad("integer-roll:axis", "fshift(eye(%d), %d, axis=%d) is not the roll along that axis" % (n, s, axis))
    # per-trace shifts: each row its own shift == stacking single-trace calls (integers and fractions)
    rng = np.random.default_rng(n)
    for axis in (1, 0):
        nt = min(n, 7)
        X = rng.standard_normal((nt, n)).astype(dt) if axis == 1 else rng.standard_normal((n, nt)).astype(dt)
        svec = np.array([(-1) ** i * (i * 0.37 + (i % 3)) for i in range(nt)])
        out = fourier.fshift(X, svec, axis=axis)
        ntr += 1
        if axis == 1:
            ref = np.stack([fourier.fshift(X[i], float(svec[i])) for i in range(nt)])
        else:
            ref = np.stack([fourier.fshift(X[:, i], float(svec[i])) for i in range(nt)], axis=1)
        if out.shape != X.shape or out.dtype != dt or _maxerr(out, ref) > tol * 10:
            bad("per-trace", "per-trace shifts along axis %d (n=%d) differ from single-trace calls by %.3g" % (axis, n, _maxerr(out, ref)))
    # 3-D arrays, every axis
    if n <= 64:
        X3 = rng.standard_normal((n, 2, 3)).astype(dt)
        for axis in (0, 1, 2, -1):
            A = np.moveaxis(X3, 0, axis)
            out = fourier.fshift(A, 3, axis=axis)
            ntr += 1
            if out.shape != A.shape or _maxerr(out, np.roll(A, 3, axis=axis)) > tol * 10:
                bad("3d", "3-D fshift along axis %d (n=%d) is not the roll" % (axis, n))
    # additivity: integers (a in all/structured, b in a small set)
    for a in (shifts if n <= 64 else (1, -3, n // 2)):
        for b in (1, -1, n // 2, n - 1):
            lhs = fourier.fshift(fourier.fshift(eye, a, axis=1), b, axis=1)
            rhs = fourier.fshift(eye, a + b, axis=1)
            ntr += 2
            if _maxerr(lhs, rhs) > tol * 4:
                bad("additivity:integer", "fshift(fshift(I,%d),%d) != fshift(I,%d) for n=%d (err %.3g)" % (a, b, a + b, n, _maxerr(lhs, rhs)))
                break
    # fractional shifts: below-Nyquist sinusoid basis = the analytically delayed sinusoid; additivity on that basis
    # (and on the impulse basis for odd n, where no Nyquist bin exists)
    t = np.arange(n)
    ks = np.arange(0, (n + 1) // 2)            # k < n/2 : strictly below Nyquist
    B = np.concatenate([np.cos(2 * np.pi * ks[:, None] * t[None, :] / n), np.sin(2 * np.pi * ks[:, None] * t[None, :] / n)]).astype(dt)
    # ... including shifts a few millionths (relative) away from a large whole number of samples: they are fractional shifts, not integer ones
    near_int = [m * (1 + 4e-6) for m in (n - 1, -(n - 2), n // 2 + 1) if abs(m) >= 8]
    for s in FRACS + [n - 0.5, -(n - 0.5)] + near_int:
        out = fourier.fshift(B, s, axis=1)
        ntr += 1
        ref = np.concatenate([np.cos(2 * np.pi * ks[:, None] * (t[None, :] - s) / n), np.sin(2 * np.pi * ks[:, None] * (t[None, :] - s) / n)])
        err = _maxerr(out, ref)
        if err > tol * 50 * (1 + n / 100.0):
            bad("fractional-delay", "fshift of the below-Nyquist sinusoids (n=%d) by %r differs from the analytic delay by %.3g" % (n, s, err))
            break
    for a, b in ((0.25, 0.5), (1 / 3, -1.7), (-0.25, -0.25), (2.5, 0.5), (0.5, -0.5)):
        lhs = fourier.fshift(fourier.fshift(B, a, axis=1), b, axis=1)
        rhs = fourier.fshift(B, a + b, axis=1)
        ntr += 2
        if _maxerr(lhs, rhs) > tol * 50 * (1 + n / 100.0):
            bad("additivity:fractional", "fshift(fshift(x,%r),%r) != fshift(x,%r) on below-Nyquist sinusoids, n=%d (err %.3g)" % (a, b, a + b, n, _maxerr(lhs, rhs)))
        if n % 2 == 1:
            lhs = fourier.fshift(fourier.fshift(eye, a, axis=1), b, axis=1)
            rhs = fourier.fshift(eye, a + b, axis=1)
            if _maxerr(lhs, rhs) > tol * 50:
                bad("additivity:fractional:impulse", "fractional additivity fails on the impulse basis for odd n=%d" % n)
    # spectrum input: fshift(rfft(x), s, ns=n) is the spectrum of the shifted signal
    x = rng.standard_normal((3, n))
    W = np.fft.rfft(x, axis=1)
    out = fourier.fshift(W.copy(), 1.25, axis=1, ns=n)
    ntr += 1
    ref = fourier.fshift(x, 1.25, axis=1)
    if not np.iscomplexobj(out) or _maxerr(np.fft.irfft(out, n, axis=1), ref) > 1e-9:
        bad("spectrum-input", "fshift on an rfft spectrum (ns=%d) is not the spectrum of the shifted signal" % n)
    for k, m in seen.items():
        v.append((k, m))
    return Res(v, o=(n % 2, dts), tr=ntr)


# ------------------------------------------------------------------ delay estimation
def _family():
    fam = []
    sp = generate_waveform()
    pk = int(np.argmax(np.abs(sp).max(axis=1)))
    fam.append(("model-spike", sp[pk].astype(np.float64)))
    fam.append(("model-spike-inverted", -sp[pk].astype(np.float64)))
    for n in (62, 63, 64, 65, 82, 101, 102, 128, 256):
        t = np.arange(n)
        for f in (0.01, 0.02, 0.05, 0.08, 0.1):
            env = np.exp(-0.5 * ((t - n / 2) / (n / 12.0)) ** 2)
            fam.append(("gauss-sine n=%d f=%g" % (n, f), env * np.sin(2 * np.pi * f * (t - n / 2) + 0.7)))
    return fam


def delay_cases(tier, seed):
    step = 0.05
    grid = np.round(np.arange(-5, 5 + 1e-9, step), 4).tolist()
    fam = _family()
    return [(i, grid[j:j + 21]) for i in range(len(fam)) for j in range(0, len(grid), 21)]


def delay_check(case):
    i, shifts = case
    name, w = _family()[i]
    v = []
    seen = {}
    rms = np.sqrt(np.mean(w ** 2))
    for s in shifts:
        w2 = fourier.fshift(w, s)
        resync, est = waveforms.wave_shift_corrmax(w, w2)
        if abs(est - s) > 0.05:
            seen.setdefault("delay-estimate", "%s: applied shift %r, estimated %r" % (name, s, float(est)))
        err = np.sqrt(np.mean((resync - w) ** 2)) / rms
        if resync.shape != w.shape or err > 0.02:
            seen.setdefault("realign", "%s: shift %r: re-aligned copy differs from the original by %.3g rms" % (name, s, err))
    for k, m in seen.items():
        v.append((k, m))
    return Res(v, o=(i < 2,), tr=len(shifts))


def stack_cases(tier, seed):
    return [(nsp, kind) for nsp in (3, 5, 9) for kind in (0, 1, 2, 3)]


def stack_check(case):
    nsp, kind = case
    sp = generate_waveform()              # (40 traces, 121 samples)
    if kind == 1:
        sp = -sp[:12]
    elif kind == 2:
        sp = sp[10:30, 9:111]            # 102 samples (4k + 2)
    elif kind == 3:
        sp = sp[:, 20:102]               # 82 samples
    sp = sp / np.abs(sp).max()
    shifts = np.linspace(-0.8, 0.8, nsp)
    cluster = np.stack([fourier.fshift(sp, float(s), axis=-1) for s in shifts])      # (N, trace, time)
    out, applied = waveforms.shift_waveform(cluster.copy())
    v = []
    if out.shape != cluster.shape:
        return Res([("shift_waveform:shape", "output shape %r" % (out.shape,))])
    if np.max(np.abs(applied + shifts)) > 0.1:
        v.append(("shift_waveform:estimate", "applied shifts %r do not undo the true shifts %r" % (applied.round(3).tolist(), shifts.round(3).tolist())))
    pk = int(np.argmax(np.abs(sp).max(axis=1)))
    spread_before = np.max(np.abs(cluster[:, pk, :] - cluster[nsp // 2, pk, :]))
    spread_after = np.max(np.abs(out[:, pk, :] - out[nsp // 2, pk, :]))
    if spread_after > 0.25 * spread_before:
        v.append(("shift_waveform:align", "waveforms are not re-aligned: spread on the peak trace %.3g -> %.3g" % (spread_before, spread_after)))
    return Res(v, o=case, tr=nsp)


# ------------------------------------------------------------------ call histories: the shift must not depend on earlier calls
def history_cases(tier, seed):
    N = 300 if tier == "quick" else 1100
    return [(a, min(a + 25, N + 1)) for a in range(2, N + 1, 25)]


def history_check(case):
    a, b = case
    seen = {}
    ntr = 0
    for n in range(a, b):
        for seq in ((n, n + 1, n), (n + 1, n, n + 1), (n, 2 * n, n), (n, n - 1) if n > 2 else (n,)):
            for m in seq:
                eye = np.eye(m)
                for s in (1, 7 % m, -2):
                    out = fourier.fshift(eye, s, axis=1)
                    ntr += 1
                    err = _maxerr(out, np.roll(eye, s, axis=1))
                    if err > 1e-10:
                        seen.setdefault("history-dependence", "after the call sequence of lengths %r, fshift(eye(%d), %d) differs from the roll by %.3g" % (seq, m, s, err))
                nr = min(3, m)
                sv = (0.5, -1.25, 2.0)[:nr]
                out = fourier.fshift(eye[:nr], np.array(sv), axis=1)
                ref = np.stack([fourier.fshift(eye[i], v) for i, v in enumerate(sv)])
                if _maxerr(out, ref) > 1e-10:
                    seen.setdefault("history-dependence:per-trace", "lengths %r: per-trace shifts differ from single-trace calls at n=%d" % (seq, m))
    # the same array of per-trace shifts applied to successive blocks of different lengths (negative and > n values included)
    for n in range(a, min(b, a + 6)):
        sv = np.array([-1.5, 2.0, -3.25, 0.4, n + 8.5])
        keep = sv.copy()
        for m in (n + 6, n + 31, n + 6):
            eye5 = np.eye(m)[:5]
            out = fourier.fshift(eye5, sv, axis=1)
            ntr += 1
            ref = np.stack([fourier.fshift(eye5[i], float(keep[i])) for i in range(5)])
            if _maxerr(out, ref) > 1e-10 or not np.array_equal(sv, keep):
                seen.setdefault("shifts-array-reused", "per-trace shifts %r reused on blocks of %d samples: result differs from single-trace calls by %.3g; shifts array afterwards %r"
                                % (keep.tolist(), m, _maxerr(out, ref), sv.tolist()))
    # ... and the caller updates that array in place between two calls on blocks of the same shape (the new values count, not the old ones)
    for n in range(a, min(b, a + 4)):
        for axis, shape in ((1, (5, n + 6)), (0, (n + 6, 5))):
            blk = np.eye(n + 6)[:5] if axis == 1 else np.eye(n + 6)[:, :5]
            base = np.array([-1.5, 2.0, -3.25, 0.4, 7.0])
            for form in ("broadcast", "flat"):
                if form == "flat" and axis != 1:
                    continue
                sv = (base[:, None] if axis == 1 else base[None, :]).copy() if form == "broadcast" else base.copy()      # ONE array object, handed over as it is
                for upd in (lambda v: v.__iadd__(3), lambda v: v.__imul__(-1), lambda v: v.__setitem__(Ellipsis, 0.0), lambda v: v.__setitem__(tuple([2] + [0] * (v.ndim - 1)) if axis == 1 else (0, 2), 1.25)):
                    try:
                        fourier.fshift(blk, sv, axis=axis)
                        upd(sv)
                        out = fourier.fshift(blk, sv, axis=axis)
                        ntr += 2
                        ref = fourier.fshift(blk, np.array(sv.tolist()), axis=axis)
                    except Exception as e:
                        seen.setdefault("shifts-array-updated-in-place:exc", "%s: %s" % (type(e).__name__, e))
                        break
                    if _maxerr(out, ref) > 1e-10:
                        seen.setdefault("shifts-array-updated-in-place", "per-trace shifts updated in place to %r between two calls on %r blocks (axis %d): the second result differs from a call with a fresh array by %.3g"
                                        % (sv.ravel().tolist(), shape, axis, _maxerr(out, ref)))
    return Res(list(seen.items()), o="h", tr=ntr)


# ------------------------------------------------------------------ lengths beyond every internal size threshold
def long_cases(tier, seed):
    from mc import thresholds
    mined = thresholds.beyond(thresholds.mine([fourier], 256, 40000))
    primes = [1031, 2053, 4099, 8209, 16411, 32771, 65537, 90001]          # just above powers of two, not 5-smooth
    return [(n,) for n in sorted(set(mined + primes))]


def long_check(case):
    """circular roll, composition and the analytic delay on long signals (a few impulses and sinusoids instead of the whole basis)"""
    n = case[0]
    v = []
    t = np.arange(n)
    pos = [0, 1, n // 3, n - 1]
    X = np.zeros((len(pos) + 2, n))
    for i, p_ in enumerate(pos):
        X[i, p_] = 1.0
    ks = (3, n // 5)
    X[len(pos)] = np.cos(2 * np.pi * ks[0] * t / n)
    X[len(pos) + 1] = np.sin(2 * np.pi * ks[1] * t / n)
    ntr = 0
    for dt, tol in ((np.float64, 1e-9), (np.float32, 5e-5)):
        Xd = X.astype(dt)
        for sh in (1, -1, 17, n // 2, -(n - 3)):
            for axis, A in ((1, Xd), (0, np.ascontiguousarray(Xd.T))):
                out = fourier.fshift(A, sh, axis=axis)
                ntr += 1
                ref = np.roll(A, sh, axis=axis)
                if out.shape != A.shape or out.dtype != A.dtype or _maxerr(out, ref) > tol * 10:
                    v.append(("long:integer-shift", "n=%d %s axis=%d: shifting by %d samples differs from the circular roll by %.3g" % (n, np.dtype(dt).name, axis, sh, _maxerr(out, ref))))
                    return Res(v, o=n, tr=ntr)
        a, b = 0.25, 1.5
        lhs = fourier.fshift(fourier.fshift(Xd[len(pos):], a, axis=1), b, axis=1)
        rhs = fourier.fshift(Xd[len(pos):], a + b, axis=1)
        ref = np.stack([np.cos(2 * np.pi * ks[0] * (t - a - b) / n), np.sin(2 * np.pi * ks[1] * (t - a - b) / n)])
        ntr += 3
        if _maxerr(lhs, rhs) > tol * 100 or _maxerr(rhs, ref) > tol * 100 * (1 + n / 1000.0):
            v.append(("long:fractional", "n=%d %s: fractional shifts do not add up / differ from the analytic delay (%.3g, %.3g)" % (n, np.dtype(dt).name, _maxerr(lhs, rhs), _maxerr(rhs, ref))))
        pt = np.array([0.5, -2.0, 3.0, 0.0, n // 2 + 0.0, -1.0])[:, None]
        out = fourier.fshift(Xd, pt, axis=1)
        ref = np.stack([fourier.fshift(Xd[i], float(pt[i, 0])) for i in range(Xd.shape[0])])
        ntr += 1 + Xd.shape[0]
        if _maxerr(out, ref) > tol * 10:
            v.append(("long:per-trace", "n=%d %s: per-trace shifts differ from single-trace calls by %.3g" % (n, np.dtype(dt).name, _maxerr(out, ref))))
    return Res(v, o=n, tr=ntr)


# ------------------------------------------------------------------ parabolic maximum
def para_cases(tier, seed):
    return [(n,) for n in range(3, 12)] + [(40,)]


def para_check(case):
    n = case[0]
    v = []
    seen = {}
    ntr = 0
    rows, expect = [], []
    for i in range(n):
        for delta in (-0.4, -0.25, 0.0, 0.1, 0.45):
            for m, a in ((2.0, 1.0), (-3.0, 0.5), (0.0, 4.0)):
                tt = np.arange(n)
                x = m - a * (tt - (i + delta)) ** 2
                # outside the three samples around i make the data strictly lower than any parabola sample (keeps argmax at i)
                lo = x[max(i - 1, 0):i + 2].min() - 1.0
                y = np.full(n, lo)
                y[max(i - 1, 0):i + 2] = x[max(i - 1, 0):i + 2]
                if 0 < i < n - 1:
                    exp = (i + delta, m)
                else:
                    exp = (float(i), y[i])            # edges: the sample itself
                    if np.argmax(y) != i:
                        continue
                ip, mx = utils.parabolic_max(y)
                ntr += 1
                if abs(float(ip) - exp[0]) > 1e-9 or abs(float(mx) - exp[1]) > 1e-9:
                    seen.setdefault("parabolic_max:1d", "parabolic_max(%r) = (%r, %r), expected %r" % (y.tolist(), float(ip), float(mx), exp))
                rows.append(y)
                expect.append(exp)
    Y = np.stack(rows)
    ip, mx = utils.parabolic_max(Y)
    ntr += 1
    E = np.array(expect)
    if ip.shape != (Y.shape[0],) or np.max(np.abs(ip - E[:, 0])) > 1e-9 or np.max(np.abs(mx - E[:, 1])) > 1e-9:
        j = int(np.argmax(np.abs(ip - E[:, 0]) + np.abs(mx - E[:, 1]))) if ip.shape == (Y.shape[0],) else 0
        seen.setdefault("parabolic_max:2d", "2-D parabolic_max row %r: got (%r, %r), expected %r" % (Y[j].tolist(), float(ip[j]), float(mx[j]), expect[j]))
    for k, m in seen.items():
        v.append((k, m))
    return Res(v, o=n, tr=ntr)


CHECK = {
    "property": "C07",
    "rule": "one case per (length, dtype): inside it every integer shift in (-n, n) on the full impulse basis, axes, per-trace shifts, additivity pairs, "
            "fractional shifts on the below-Nyquist sinusoid basis; non-trivial = all",
    "assumptions": [
        "linearity of fshift in the signal for a fixed shift (read from the code: FFT, phase ramp, inverse FFT) lets the impulse basis speak for all signals",
        "fractional claims are restricted to signals below Nyquist as the property says (sinusoid basis k < n/2; impulse basis only for odd n)",
        "tolerances: 1e-10 (float64) / 2e-5 (float32) for integer shifts, 50(1+n/100)x that for fractional ones",
        "delay estimation: model spike (both polarities) and Gaussian-windowed sinusoids of 5 frequencies <= 0.1 cycle/sample x 3 lengths (the parabolic fit of the correlation peak is only this accurate for waveforms sampled >= 10 times per cycle: measured bias 0.03 at 0.2 cycle/sample, outside the tolerance at 0.3), shifts on a 0.05 grid in [-5, 5]; tolerance 0.05 sample, 2 % rms",
    ],
    "clauses": [
        Clause("basis", "impulse / sinusoid basis laws for every length and dtype", cases=basis_cases, check=basis_check),
        Clause("history", "call sequences over neighbouring lengths in one process (no hidden state)", cases=history_cases, check=history_check),
        Clause("long-lengths", "lengths just beyond every size constant mined from ibldsp.fourier, and primes up to 90001", cases=long_cases, check=long_check),
        Clause("delay", "wave_shift_corrmax recovers the applied shift and re-aligns", cases=delay_cases, check=delay_check),
        Clause("stack", "shift_waveform re-aligns a cluster of shifted copies", cases=stack_cases, check=stack_check),
        Clause("parabolic", "parabolic_max on every 3-point pattern position incl. edges, 1-D and 2-D", cases=para_cases, check=para_check),
        _layouts.make_clause(__import__("checks._layout_specs", fromlist=["x"]).c07()),
    ],
}
