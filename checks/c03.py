"""
C03 - NP2.4 shank splitting is lossless and reconstruction is its exact inverse.  Engine E1.
"""
import itertools
import os
import shutil

import numpy as np

from mc.engine import Clause, Res
from mc import synth, np2

import neuropixel
import spikeglx


def _expected_shank(data, sites, sh):
    cols = [i for i, s in enumerate(sites) if s[0] == sh] + [data.shape[1] - 1]
    return np.ascontiguousarray(data[:, cols])


def _compare_split(root, data, sites, seen, ctx, compressed=False, apstem=None):
    """every shank folder holds exactly the original samples of its channels followed by the sync channel"""
    apstem = apstem or (np2.STEM + ".ap")          # name of the AP file without its suffix (the band is read from the metadata, not from the name)
    shanks = sorted({s[0] for s in sites})
    for sh in shanks:
        folder = np2.shank_folder(root, sh)
        f = os.path.join(folder, apstem + (".cbin" if compressed else ".bin"))
        if not os.path.exists(f):
            seen.setdefault("split:missing-file", "%s: %s is missing" % (ctx, f))
            continue
        exp = _expected_shank(data, sites, sh)
        try:
            sr = spikeglx.Reader(f, sort=False)
            meta = dict(sr.meta)
            shape = sr.shape
            sr.close()
            got = np2.read_raw(f, shape[1])
        except Exception as e:
            seen.setdefault("split:unreadable", "%s: shank %d file cannot be opened: %s: %s" % (ctx, sh, type(e).__name__, e))
            continue
        if not compressed:
            raw = np.fromfile(f, dtype=np.int16)
            if raw.size != exp.size or not np.array_equal(raw.reshape(exp.shape), exp):
                nbad = int(np.sum(raw.reshape(-1)[:exp.size] != exp.reshape(-1)[:raw.size])) if raw.size else -1
                first = np.argwhere(raw.reshape(exp.shape) != exp)[0].tolist() if raw.size == exp.size else None
                detail = ""
                if first is not None:
                    detail = " first at sample %d column %d: %d instead of %d" % (first[0], first[1], raw.reshape(exp.shape)[first[0], first[1]], exp[first[0], first[1]])
                col_is_sync = first is not None and first[1] == exp.shape[1] - 1
                key = "split:bytes:sync" if col_is_sync else "split:bytes"
                seen.setdefault(key, "%s: shank %d AP file differs from the original samples of its channels (+sync): %d of %d values, sizes %d/%d;%s"
                                % (ctx, sh, nbad, exp.size, raw.size, exp.size, detail))
        if got.shape != exp.shape or not np.array_equal(got, exp):
            seen.setdefault("split:reader", "%s: shank %d file read back through the reader differs from the original columns (shape %r vs %r)" % (ctx, sh, got.shape, exp.shape))
        # metadata of the shank file
        nch = exp.shape[1]
        if int(meta.get("nSavedChans", -1)) != nch or [int(v) for v in meta.get("snsApLfSy", [])] != [nch - 1, 0, 1] or tuple(shape) != exp.shape \
                or [int(v) for v in meta.get("acqApLfSy", [])][1:] != [0, 1]:
            seen.setdefault("split:meta", "%s: shank %d metadata does not describe the file: nSavedChans=%r snsApLfSy=%r shape=%r, content %r"
                            % (ctx, sh, meta.get("nSavedChans"), meta.get("snsApLfSy"), shape, exp.shape))
        if int(meta.get("NP2.4_shank", -1)) != sh or int(meta.get("fileSizeBytes", -1)) != exp.size * 2:
            seen.setdefault("split:meta2", "%s: shank %d metadata: NP2.4_shank=%r fileSizeBytes=%r (content %d bytes)" % (ctx, sh, meta.get("NP2.4_shank"), meta.get("fileSizeBytes"), exp.size * 2))


def _reconstruct_and_compare(root, orig_sha, orig_meta, seen, ctx, compress=False, apstem=None):
    """moves the original away, reconstructs from the shank folders, compares bytes and metadata"""
    apstem = apstem or (np2.STEM + ".ap")
    pdir = os.path.join(root, np2.LABEL)
    keep = os.path.join(root, "kept_original")
    shutil.rmtree(keep, ignore_errors=True)
    os.rename(pdir, keep)
    try:
        rec = neuropixel.NP2Reconstructor(root, np2.LABEL, compress=compress)
        status = rec.process()
        f = os.path.join(pdir, apstem + (".cbin" if compress else ".bin"))
        if status != 1 or not os.path.exists(f):
            seen.setdefault("reconstruct:status", "%s: reconstruction returned %r / wrote no %s" % (ctx, status, os.path.basename(f)))
            return
        if compress:
            sr = spikeglx.Reader(f, sort=False)
            sr.decompress_file(keep_original=False)
            sr.close()
            f = f.replace(".cbin", ".bin")
        sha = np2.sha1(f)
        if sha != orig_sha:
            seen.setdefault("reconstruct:bytes", "%s: the reconstructed binary differs from the original (sha1 %s vs %s, %d vs %d bytes)"
                            % (ctx, sha[:10], orig_sha[:10], os.path.getsize(f), os.path.getsize(os.path.join(keep, apstem + ".bin"))
                               if os.path.exists(os.path.join(keep, apstem + ".bin")) else -1))
        m = dict(spikeglx.read_meta_data(os.path.join(pdir, apstem + ".meta")))
        m.pop("original_meta", None)
        o = dict(orig_meta)
        diff = sorted(k for k in set(m) | set(o) if m.get(k) != o.get(k))
        if diff:
            seen.setdefault("reconstruct:meta", "%s: reconstructed metadata differs from the original on %r: %r"
                            % (ctx, diff, [(k, o.get(k), m.get(k)) for k in diff][:3]))
    except Exception as e:
        seen.setdefault("reconstruct:exc:%s" % type(e).__name__, "%s: reconstruction raised %s: %s" % (ctx, type(e).__name__, e))
    finally:
        shutil.rmtree(pdir, ignore_errors=True)
        os.rename(keep, pdir)


# ------------------------------------------------------------------ every int16 value x every gain setting
GAINSETS = [(0.5, 8192), (0.62, 2048), (0.6, 512), (0.62, 8192), (0.5, 512), (0.6, 8192), (0.5, 2048), (0.6, 2048), (0.62, 512)]


def value_cases(tier, seed):
    return [(kind, vr, mi) for kind in ("NP2.4", "NP2.4b") for vr, mi in GAINSETS]


def value_check(case):
    kind, vr, mi = case
    root = os.path.join(synth.proc_scratch(), "c03v")
    np2.clean(root)
    assign = [0, 1, 2, 3, 3, 0, 2, 1]
    sites = np2.sites_for(assign)
    data = np2.content(65536, 9, "ramp")
    ap = np2.make_session(root, kind, sites, data, vrange=vr, maxint=mi)
    seen = {}
    ctx = "%s range=%r maxint=%r" % (kind, vr, mi)
    try:
        status, conv = np2.convert(ap, nwindow=24000, post_check=False)
        np2.release(conv)
        if status != 1:
            seen.setdefault("split:status", "%s: process() returned %r" % (ctx, status))
        _compare_split(root, data, sites, seen, ctx)
    except Exception as e:
        seen.setdefault("split:exc:%s" % type(e).__name__, "%s: splitting raised %s: %s" % (ctx, type(e).__name__, e))
    # with the integrity post-check switched on the run must succeed as well
    try:
        status, conv = np2.convert(ap, nwindow=24000, post_check=True, overwrite=True)
        np2.release(conv)
    except Exception as e:
        seen.setdefault("split:post-check-fails", "%s: a run with post_check=True raised %s: %s" % (ctx, type(e).__name__, e))
    shutil.rmtree(root, ignore_errors=True)
    return Res(list(seen.items()), o=(vr, mi), tr=2)


# ------------------------------------------------------------------ every shank map of six sites
def map_cases(tier, seed):
    return [list(a) for a in itertools.product(range(4), repeat=2)]


def map_check(prefix):
    root = os.path.join(synth.proc_scratch(), "c03m")
    seen = {}
    ntr = 0
    data = np2.content(700, 7, "ramp")
    data[:, :6] = (data[:, :6].astype(np.int64) * 37 % 4001 - 2000).astype(np.int16)
    for rest in itertools.product(range(4), repeat=4):
        assign = list(prefix) + list(rest)
        sites = np2.sites_for(assign)
        np2.clean(root)
        kind = "NP2.4" if sum(assign) % 2 == 0 else "NP2.4b"
        ap = np2.make_session(root, kind, sites, data)
        orig_sha = np2.sha1(ap)
        orig_meta = spikeglx.read_meta_data(ap.with_suffix(".meta"))
        ctx = "shank map %r" % (assign,)
        try:
            status, conv = np2.convert(ap, nwindow=600, post_check=True)
            np2.release(conv)
            ntr += 1
            if status != 1:
                seen.setdefault("split:status", "%s: process() returned %r" % (ctx, status))
                continue
        except Exception as e:
            seen.setdefault("split:exc:%s" % type(e).__name__, "%s: splitting raised %s: %s" % (ctx, type(e).__name__, e))
            continue
        _compare_split(root, data, sites, seen, ctx)
        _reconstruct_and_compare(root, orig_sha, orig_meta, seen, ctx)
        ntr += 1
    shutil.rmtree(root, ignore_errors=True)
    return Res(list(seen.items()), o="maps", tr=ntr)


# ------------------------------------------------------------------ window sizes x recording lengths
def window_box(tier):
    wins = (588, 600, 648, 1200) if tier == "quick" else (588, 600, 612, 624, 636, 648, 1200)
    out = []
    for w in wins:
        top = 2 * w + 700
        stride = w - 576
        seams = {w, 2 * w - 576, 3 * w - 2 * 576, w + stride * 5, 300, top}
        for ns in range(300, top + 1):
            near = any(abs(ns - s) <= (12 if tier == "quick" else 40) for s in seams)
            if near or (tier == "thorough") or ns % 29 == 0:
                out.append((w, ns))
    return out


def window_cases(tier, seed):
    return window_box(tier)


def window_check(case):
    w, ns = case
    root = os.path.join(synth.proc_scratch(), "c03w")
    np2.clean(root)
    assign = [0, 1, 0, 1, 2, 3]
    sites = np2.sites_for(assign)
    data = np2.content(ns, 7, "ramp")
    data[:, :6] = (data[:, :6].astype(np.int64) * 37 % 4001 - 2000).astype(np.int16)
    ap = np2.make_session(root, "NP2.4", sites, data)
    seen = {}
    ctx = "ns=%d nwindow=%d" % (ns, w)
    try:
        status, conv = np2.convert(ap, nwindow=w, post_check=True)
        np2.release(conv)
        if status != 1:
            seen.setdefault("split:status", "%s: process() returned %r" % (ctx, status))
        _compare_split(root, data, sites, seen, ctx)
    except Exception as e:
        seen.setdefault("split:exc:%s" % type(e).__name__, "%s: splitting raised %s: %s" % (ctx, type(e).__name__, e))
    shutil.rmtree(root, ignore_errors=True)
    return Res(list(seen.items()), o=(w, ns < w, (ns - w) % (w - 576) == 0), tr=1)


# ------------------------------------------------------------------ value patterns
PATTERNS = ("all-zero", "zero-start", "zero-middle", "zero-end", "rail-low", "rail-high", "constant", "zero-data-live-sync", "live-data-zero-sync")


def pattern_cases(tier, seed):
    return [(pat, pc, ns) for pat in PATTERNS for pc in (True, False) for ns in ((3000,) if tier == "quick" else (3000, 1811))]


def pattern_check(case):
    """recordings holding long stretches of zeros (acquisition gaps, silent synthetic data), the int16 rails or constants: what the samples are must not matter"""
    pat, post_check, ns = case
    root = os.path.join(synth.proc_scratch(), "c03p")
    np2.clean(root)
    assign = [0, 1, 2, 3, 3, 0]
    sites = np2.sites_for(assign)
    data = np2.content(ns, 7, "ramp")
    a, b = ns // 3, ns // 3 + 1400          # longer than two processing windows of 600 samples
    if pat == "all-zero":
        data[:] = 0
    elif pat == "zero-start":
        data[:1400] = 0
    elif pat == "zero-middle":
        data[a:b] = 0
    elif pat == "zero-end":
        data[ns - 1400:] = 0
    elif pat == "rail-low":
        data[a:b] = -32768
    elif pat == "rail-high":
        data[a:b] = 32767
    elif pat == "constant":
        data[:] = 1234
    elif pat == "zero-data-live-sync":
        data[a:b, :-1] = 0
    elif pat == "live-data-zero-sync":
        data[a:b, -1] = 0
    # the sampling rate as the metadata carry it: nominal, or calibrated a little above / below (imSampRate), the duration written accordingly
    fs = (30000, 30000.268421, 29999.757983)[PATTERNS.index(pat) % 3]
    ap = np2.make_session(root, "NP2.4", sites, data, fs=fs)
    apstem = None
    if PATTERNS.index(pat) % 3 == 1:
        # a file name that carries the band without the dotted form (the reader takes the band from the metadata): run1_g0_t0_imec0_ap.bin
        apstem = "run1_g0_t0_imec0_ap"
        for suf in (".bin", ".meta"):
            os.rename(str(ap.with_suffix(suf)), os.path.join(os.path.dirname(str(ap)), apstem + suf))
        ap = ap.with_name(apstem + ".bin")
    orig_sha = np2.sha1(ap)
    orig_meta = spikeglx.read_meta_data(ap.with_suffix(".meta"))
    seen = {}
    ctx = "recording %s of %d samples at %r Hz with pattern %s (post_check=%s, window 600)" % (ap.name, ns, fs, pat, post_check)
    try:
        status, conv = np2.convert(ap, nwindow=600, post_check=post_check)
        np2.release(conv)
        if status != 1:
            seen.setdefault("pattern:status", "%s: process() returned %r" % (ctx, status))
        sub = {}
        _compare_split(root, data, sites, sub, ctx, apstem=apstem)
        _reconstruct_and_compare(root, orig_sha, orig_meta, sub, ctx, apstem=apstem)
        for k, m in sub.items():
            seen.setdefault("pattern:" + k, m)
    except Exception as e:
        seen.setdefault("pattern:exc:%s" % type(e).__name__, "%s: raised %s: %s" % (ctx, type(e).__name__, e))
    shutil.rmtree(root, ignore_errors=True)
    return Res(list(seen.items()), o=(pat, post_check), tr=2)


# ------------------------------------------------------------------ compressed variants
def cbin_cases(tier, seed):
    return [(a, c, src) for a in ([0, 1, 2, 3, 3, 0], [2, 2, 2, 2, 2, 2], [0, 3, 0, 3, 1, 1]) for c in (False, True) for src in ("bin", "cbin")]


def cbin_check(case):
    assign, rec_compress, src = case
    root = os.path.join(synth.proc_scratch(), "c03c")
    np2.clean(root)
    sites = np2.sites_for(assign)
    data = np2.content(1500, 7, "ramp")
    ap = np2.make_session(root, "NP2.4b", sites, data)
    orig_sha = np2.sha1(ap)
    orig_meta = spikeglx.read_meta_data(ap.with_suffix(".meta"))
    seen = {}
    ctx = "shank map %r source .%s reconstruct(compress=%s)" % (assign, src, rec_compress)
    try:
        if src == "cbin":
            sr = spikeglx.Reader(ap)
            ap = sr.compress_file(keep_original=False, n_threads=1, quiet=True, chunk_duration=500 / 30000.)
            sr.close()
        status, conv = np2.convert(ap, nwindow=600, post_check=True, compress=True)
        np2.release(conv)
        if status != 1:
            seen.setdefault("split:status", "%s: process() returned %r" % (ctx, status))
        _compare_split(root, data, sites, seen, ctx, compressed=True)
        if src == "cbin":
            # bring the original back to .bin form for the byte comparison of the reconstruction
            sr = spikeglx.Reader(ap)
            sr.decompress_file(keep_original=False)
            sr.close()
        _reconstruct_and_compare(root, orig_sha, orig_meta, seen, ctx, compress=rec_compress)
    except Exception as e:
        seen.setdefault("split:exc:%s" % type(e).__name__, "%s: raised %s: %s" % (ctx, type(e).__name__, e))
    shutil.rmtree(root, ignore_errors=True)
    return Res(list(seen.items()), o=(rec_compress, src), tr=2)


# ------------------------------------------------------------------ forced re-runs
def rerun_cases(tier, seed):
    return [(a, same, pc) for a in ([0, 1, 2, 3, 3, 0], [1, 3, 3, 1, 1, 3], [2, 2, 2, 2, 2, 2]) for same in (True, False, "reinit", "reinit-other-window") for pc in (True, False)]


def rerun_check(case):
    assign, same_object, post_check = case
    root = os.path.join(synth.proc_scratch(), "c03r")
    np2.clean(root)
    sites = np2.sites_for(assign)
    data = np2.content(1500, 7, "ramp")
    ap = np2.make_session(root, "NP2.4", sites, data)
    orig_sha = np2.sha1(ap)
    orig_meta = spikeglx.read_meta_data(ap.with_suffix(".meta"))
    seen = {}
    ctx = "shank map %r, split then forced re-split (%s converter object, post_check=%s)" % (
        assign, {True: "same", False: "fresh"}.get(same_object, "same, init_params() called again%s," % (" with another window" if "other" in str(same_object) else "")), post_check)
    try:
        conv = neuropixel.NP2Converter(ap, post_check=post_check, compress=False)
        conv.init_params(nwindow=600)
        st1 = conv.process()
        if not same_object:
            conv.sr.close()
            conv = neuropixel.NP2Converter(ap, post_check=post_check, compress=False)
            conv.init_params(nwindow=600)
        elif same_object in ("reinit", "reinit-other-window"):
            conv.init_params(nwindow=600 if same_object == "reinit" else 648)
        st2 = conv.process(overwrite=True)
        conv.sr.close()
        if (st1, st2) != (1, 1):
            seen.setdefault("rerun:status", "%s: statuses %r" % (ctx, (st1, st2)))
        _compare_split(root, data, sites, seen, ctx)
        _reconstruct_and_compare(root, orig_sha, orig_meta, seen, ctx)
    except Exception as e:
        seen.setdefault("rerun:exc:%s" % type(e).__name__, "%s: raised %s: %s" % (ctx, type(e).__name__, e))
    shutil.rmtree(root, ignore_errors=True)
    return Res(list(seen.items()), o=(same_object, post_check), tr=3)


# ------------------------------------------------------------------ call histories on converter objects
HIST_OPS = ("P", "O", "N", "I")       # process(), process(overwrite=True), a new converter object, init_params() again with another window


def hist_cases(tier, seed):
    depth = 4 if tier == "quick" else 5
    return [(a, pc, first, depth) for a in ([0, 1, 2, 3, 3, 0], [1, 3, 3, 1, 1, 3]) for pc in (True, False) for first in HIST_OPS]


def hist_check(case):
    """every sequence of calls after a first split: whatever was skipped or forced, the shank files are the split of the original after every call"""
    assign, post_check, first, depth = case
    root = os.path.join(synth.proc_scratch(), "c03h")
    sites = np2.sites_for(assign)
    data = np2.content(1500, 7, "ramp")
    seen = {}
    ntr = 0
    nwords = 0
    outcomes = set()
    for rest in itertools.product(HIST_OPS, repeat=depth - 1):
        word = ("P", first) + rest
        nwords += 1
        np2.clean(root)
        ap = np2.make_session(root, "NP2.4", sites, data)
        orig_sha = np2.sha1(ap)
        orig_meta = spikeglx.read_meta_data(ap.with_suffix(".meta"))
        conv = neuropixel.NP2Converter(ap, post_check=post_check, compress=False)
        conv.init_params(nwindow=600)
        res = []
        for i, op in enumerate(word):
            ctx = "shank map %r post_check=%s, calls %s (P=process, O=process(overwrite=True), N=new converter, I=init_params again)" % (assign, post_check, "".join(word[:i + 1]))
            try:
                if op == "P":
                    res.append(conv.process())
                elif op == "O":
                    st = conv.process(overwrite=True)
                    res.append(st)
                    if st != 1:
                        seen.setdefault("history:forced-status", "%s: the forced split returned %r" % (ctx, st))
                elif op == "N":
                    try:
                        conv.sr.close()
                    except Exception:
                        pass
                    conv = neuropixel.NP2Converter(ap, post_check=post_check, compress=False)
                    conv.init_params(nwindow=600)
                    res.append("n")
                else:
                    conv.init_params(nwindow=648)
                    res.append("i")
            except Exception as e:
                seen.setdefault("history:exc:%s" % type(e).__name__, "%s: raised %s: %s" % (ctx, type(e).__name__, e))
                break
            ntr += 1
            before = len(seen)
            sub = {}
            _compare_split(root, data, sites, sub, ctx)
            for k, m in sub.items():
                seen.setdefault("history:" + k, m)
            if sub:
                break
        else:
            sub = {}
            _reconstruct_and_compare(root, orig_sha, orig_meta, sub, "shank map %r, calls %s, then reconstruction" % (assign, "".join(word)))
            for k, m in sub.items():
                seen.setdefault("history:" + k, m)
        try:
            conv.sr.close()
        except Exception:
            pass
        outcomes.add(tuple(res))
        if len(seen) > 4:
            break
    shutil.rmtree(root, ignore_errors=True)
    return Res(list(seen.items()), o=(post_check, first, len(outcomes)), tr=ntr, x=dict(histories=nwords))


# ------------------------------------------------------------------ recordings longer than the reconstructor's window
def long_cases(tier, seed):
    nss = (60000, 60001, 67000, 120000) if tier == "quick" else (59999, 60000, 60001, 60012, 67000, 119999, 120000, 120001, 125000, 180011)
    return [(ns,) for ns in nss]


def long_check(case):
    ns = case[0]
    root = os.path.join(synth.proc_scratch(), "c03l")
    np2.clean(root)
    assign = [0, 1, 2, 3, 1, 0]
    sites = np2.sites_for(assign)
    data = np2.content(ns, 7, "ramp")
    ap = np2.make_session(root, "NP2.4", sites, data)
    orig_sha = np2.sha1(ap)
    orig_meta = spikeglx.read_meta_data(ap.with_suffix(".meta"))
    seen = {}
    ctx = "ns=%d (default windows)" % ns
    try:
        status, conv = np2.convert(ap, post_check=True)          # default processing window (2 s)
        np2.release(conv)
        if status != 1:
            seen.setdefault("split:status", "%s: process() returned %r" % (ctx, status))
        _compare_split(root, data, sites, seen, ctx)
        _reconstruct_and_compare(root, orig_sha, orig_meta, seen, ctx)
    except Exception as e:
        seen.setdefault("split:exc:%s" % type(e).__name__, "%s: raised %s: %s" % (ctx, type(e).__name__, e))
    shutil.rmtree(root, ignore_errors=True)
    return Res(list(seen.items()), o=(ns % 60000 == 0,), tr=2)


CHECK = {
    "property": "C03",
    "rule": "values: every int16 value on every channel x 9 (range, maxint) settings x 2 probe types; maps: all 4^6 shank assignments of six sites; "
            "windows: (nwindow, ns) box around every window seam; non-trivial = all",
    "assumptions": [
        "recordings have 6-8 sites + sync (the library handles nSavedChans = k+1 with k-entry tables); content is a value ramp decorrelated across channels",
        "window box: nwindow in {588, 600, 648, 1200} (thorough: every multiple of 12 from 588 to 648, and 1200), ns from 300 to 2*nwindow+700: every ns within 12 (40) samples of a window seam, "
        "every 29th elsewhere (thorough: every ns); recordings shorter than 300 samples (two tapers) are not covered",
        "the reconstruction is compared after moving the original aside (it writes to the original's path)",
    ],
    "clauses": [
        Clause("values", "all 65536 values x gain settings", cases=value_cases, check=value_check),
        Clause("shank-maps", "all 4^6 shank maps, split + reconstruct", cases=map_cases, check=map_check),
        Clause("windows", "window sizes x recording lengths", cases=window_cases, check=window_check),
        Clause("compressed", "compressed source / compressed shank files / compressed reconstruction", cases=cbin_cases, check=cbin_check),
        Clause("value-patterns", "recordings with zero stretches longer than two windows (start / middle / end / everywhere), the int16 rails, constants, with and without the converter's own post-check",
               cases=pattern_cases, check=pattern_check),
        Clause("rerun", "split followed by a forced re-split on the same / a fresh converter object", cases=rerun_cases, check=rerun_check),
        Clause("call-histories", "every sequence (4 calls quick / 5 thorough after the first split) of process(), process(overwrite=True), new converter object and init_params(): "
               "after every call the shank files are the split of the original, a forced split is carried out, and reconstruction gives the original back",
               cases=hist_cases, check=hist_check),
        Clause("long", "recordings around and beyond the 60000-sample default windows of converter and reconstructor", cases=long_cases, check=long_check),
    ],
}
