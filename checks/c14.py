"""
C14 - spike features obey their ordering, extremum and equivariance laws.  Engine E1.

Every waveform of a small length over small value alphabets (largest deflection not on the first sample) is run
through the real compute_spike_features, in one batch and as singleton batches, and compared with a per-waveform
reference written from the property text (tie tolerant: values are compared, indices only where they are unambiguous).
"""
import itertools

import numpy as np

from mc.engine import Clause, Res
from mc import layouts as _layouts

from ibldsp import waveforms
from neurowaveforms.model import generate_waveform

FS = 30000
ALPHA = {"neg": (-3, -1, 0, 1, 2), "pos": (-2, -1, 0, 1, 3)}
IDX_COLS = ["peak_time_idx", "trough_time_idx", "tip_time_idx", "half_peak_post_time_idx", "half_peak_pre_time_idx", "recovery_time_idx"]
VAL_COLS = ["peak_val", "trough_val", "tip_val", "half_peak_post_val", "half_peak_pre_val", "recovery_val"]


def features(batch, d):
    """the real library call; batch (N, T, C) float"""
    return waveforms.compute_spike_features(batch.copy(), fs=FS, recovery_duration_ms=d * 1000.0 / FS)


def admissible(w):
    """largest |deflection| is not on the first sample (on no channel attaining it)"""
    a = np.abs(np.nan_to_num(w))
    m = a.max()
    return m > 0 and not np.any(a[0] == m)


def final_peaks(w):
    """
    candidate final peaks (time, channel, swapped?, degenerate?) from every initial global |.| extremum:
    the documented swap moves a positive peak whose |peak/trough| <= 1.5 to the post-peak minimum of the same channel
    """
    a = np.abs(w)
    m = a.max()
    out = []
    for t0, c0 in zip(*np.nonzero(a == m)):
        p0 = w[t0, c0]
        if p0 > 0:
            seg = w[t0:, c0]
            m0 = seg.min()
            if m0 != 0 and abs(p0 / m0) <= 1.5:
                # trough candidates: every position of the post-peak minimum
                for tt in np.flatnonzero(seg == m0):
                    out.append((int(t0 + tt), int(c0), True, bool(m0 > 0)))
                continue
        out.append((int(t0), int(c0), False, False))
    return out


def check_one(w, row, d, T):
    """
    :param w: (T, C) waveform (NaN already 0), row: dict of the library's features
    :return: None if the features satisfy the property for some admissible tie-break, else (key, message)
    """
    msgs = []
    for tp, c, swapped, degenerate in final_peaks(w):
        cls = "degenerate-swap" if degenerate else ("swap" if swapped else ("neg" if w[tp, c] < 0 else "pos"))
        if int(row["peak_trace_idx"]) != c:
            msgs.append(("peak-channel", cls, "peak channel %r, extremum on %d" % (row["peak_trace_idx"], c)))
            continue
        pv = w[tp, c]
        if row["peak_val"] != pv or w[int(row["peak_time_idx"]), c] != pv or (swapped and int(row["peak_time_idx"]) < tp and not degenerate and False):
            msgs.append(("peak", cls, "peak_val %r at %r, expected %r (global |.| extremum%s)" % (row["peak_val"], row["peak_time_idx"], pv,
                                                                                                     ", trough swap" if swapped else "")))
            continue
        tpk = int(row["peak_time_idx"])
        s = 1.0 if pv > 0 else -1.0
        u = -s * w[:, c]                      # peak-negative orientation
        tr, tip = int(row["trough_time_idx"]), int(row["tip_time_idx"])
        if not (0 <= tip < tpk <= tr < T):
            msgs.append(("order", cls, "tip %d < peak %d <= trough %d violated" % (tip, tpk, tr)))
            continue
        if u[tr] != u[tpk:].max() or row["trough_val"] != w[tr, c]:
            msgs.append(("trough", cls, "trough at %d (val %r) is not the post-peak extremum %r" % (tr, row["trough_val"], -s * u[tpk:].max())))
            continue
        if u[tip] != u[:tpk].max() or row["tip_val"] != w[tip, c]:
            msgs.append(("tip", cls, "tip at %d (val %r) is not the pre-peak extremum %r" % (tip, row["tip_val"], -s * u[:tpk].max())))
            continue
        h = u[tpk] / 2.0
        hp, hq = int(row["half_peak_post_time_idx"]), int(row["half_peak_pre_time_idx"])
        post_strict = [i for i in range(tpk, T) if u[i] > h]
        post_loose = [i for i in range(tpk, T) if u[i] >= h]
        if post_strict and hp not in (post_strict[0], post_loose[0]):
            msgs.append(("half-post", cls, "post half-peak point %d, nearest sample back within half the peak is %d" % (hp, post_strict[0])))
            continue
        pre_strict = [i for i in range(0, tpk) if u[i] > h]
        pre_loose = [i for i in range(0, tpk) if u[i] >= h]
        if pre_strict and hq not in (pre_strict[-1], pre_loose[-1]):
            msgs.append(("half-pre", cls, "pre half-peak point %d, nearest sample back within half the peak is %d" % (hq, pre_strict[-1])))
            continue
        if (post_strict and row["half_peak_post_val"] != w[hp, c]) or (pre_strict and row["half_peak_pre_val"] != w[hq, c]):
            msgs.append(("half-val", cls, "half-peak values are not the trace at the reported indices"))
            continue
        rec = int(row["recovery_time_idx"])
        if rec != min(tr + d, T - 1) or row["recovery_val"] != w[rec, c]:
            msgs.append(("recovery", cls, "recovery point %d (val %r), expected min(trough %d + %d, %d)" % (rec, row["recovery_val"], tr, d, T - 1)))
            continue
        return None
    rank = ["peak-channel", "peak", "order", "trough", "tip", "half-post", "half-pre", "half-val", "recovery"]
    k, cls, m = max(msgs, key=lambda x: rank.index(x[0]))
    return ("%s:%s" % (k, cls), m)


def _rows(df):
    cols = ["peak_trace_idx"] + IDX_COLS + VAL_COLS
    arr = df[cols].to_numpy()
    return cols, arr


# ------------------------------------------------------------------ exhaustive small waveforms, one channel
def small_cases(tier, seed):
    out = []
    for alpha in ("neg", "pos"):
        for T in ((6, 7) if tier == "quick" else (6, 7, 8)):
            for d in ((2, 5) if T < 8 else (3,)):
                for first in itertools.product(ALPHA[alpha], repeat=2 if T < 8 else 3):
                    out.append((alpha, T, d, list(first), 1))
    # two channels over three values
    for T in ((5,) if tier == "quick" else (5, 6)):
        for first in itertools.product((-2, 0, 1), repeat=2 if T == 5 else 4):
            out.append(("3v", T, 2, list(first), 2))
    if tier == "thorough":
        for first in itertools.product((-2, 0, 1), repeat=3):
            out.append(("3v", 4, 2, list(first), 3))
    return out


def _enumerate(alpha, T, first, C):
    """all waveforms (T, C) whose first len(first) cells (C order: time-major) are `first`"""
    vals = ALPHA[alpha] if alpha in ALPHA else (-2, 0, 1)
    n = T * C - len(first)
    grid = np.array(list(itertools.product(vals, repeat=n)), dtype=np.float64)
    full = np.concatenate([np.tile(np.array(first, dtype=np.float64), (grid.shape[0], 1)), grid], axis=1)
    return full.reshape(-1, T, C)


def small_check(case):
    alpha, T, d, first, C = case
    batch = _enumerate(alpha, T, first, C)
    keep = np.array([admissible(w) for w in batch])
    batch = batch[keep]
    v = []
    seen = {}
    if batch.shape[0] == 0:
        return Res([], o="empty", nt=False, tr=0)
    try:
        df = features(batch, d)
    except Exception as e:
        # find a smallest culprit for the message
        culprit = None
        for w in batch:
            try:
                features(w[None], d)
            except Exception:
                culprit = w
                break
        return Res([("batch:exc:%s" % type(e).__name__, "compute_spike_features raised %s: %s on a batch of %d admissible waveforms (T=%d, d=%d); "
                     "first failing waveform alone: %r" % (type(e).__name__, e, batch.shape[0], T, d, None if culprit is None else culprit.T.tolist()))],
                   o="exc", tr=1)
    cols, arr = _rows(df)
    if arr.shape[0] != batch.shape[0]:
        return Res([("batch:rows", "%d rows for %d waveforms" % (arr.shape[0], batch.shape[0]))])
    classes = {}
    for i in range(batch.shape[0]):
        row = dict(zip(cols, arr[i]))
        r = check_one(batch[i], row, d, T)
        if r is not None:
            key, msg = r
            if key not in seen:
                seen[key] = "waveform %r (T=%d, d=%d): %s; features %r" % (batch[i].T.tolist(), T, d, msg, {k: row[k] for k in cols})
            classes[key] = classes.get(key, 0) + 1
    ncalls = 1
    ni = 1 + len(IDX_COLS)
    # batch independence, exhaustively and cheaply: the reversed batch and the two halves must give the same rows
    n = batch.shape[0]
    for name, sel in (("reversed", np.arange(n)[::-1]), ("odd-even", np.r_[np.arange(1, n, 2), np.arange(0, n, 2)])):
        _, a2 = _rows(features(batch[sel], d))
        ncalls += 1
        bad = np.flatnonzero(~np.all((a2 == arr[sel]) | (np.isnan(a2) & np.isnan(arr[sel])), axis=1))
        if bad.size:
            seen.setdefault("batch-dependence", "waveform %r: features change when the batch is reordered (%s): %r vs %r"
                            % (batch[sel][bad[0]].T.tolist(), name, a2[bad[0]].tolist(), arr[sel][bad[0]].tolist()))
    # ... and against singleton batches for a stride of the waveforms (every waveform of small batches)
    stride = max(1, n // 150)
    for i in range(0, n, stride):
        w = batch[i]
        try:
            _, a1 = _rows(features(w[None], d))
            ncalls += 1
        except Exception as e:
            seen.setdefault("single:exc:%s" % type(e).__name__, "waveform %r alone raised %s: %s" % (w.T.tolist(), type(e).__name__, e))
            continue
        if not np.array_equal(a1[0], arr[i], equal_nan=True):
            seen.setdefault("batch-dependence", "waveform %r: features alone %r differ from features in the batch %r"
                            % (w.T.tolist(), dict(zip(cols, a1[0])), dict(zip(cols, arr[i]))))
    # the same integer-valued batch handed over in an integer / single-precision dtype: same features
    for dt in (np.int16, np.int32, np.float32):
        try:
            _, a2 = _rows(features(batch.astype(dt), d))
            ncalls += 1
        except Exception as e:
            seen.setdefault("dtype:exc:%s" % type(e).__name__, "batch as %s raised %s: %s" % (np.dtype(dt).name, type(e).__name__, e))
            continue
        bad = np.flatnonzero(~np.all(np.isclose(a2, arr, rtol=1e-6, atol=0, equal_nan=True), axis=1))
        if bad.size:
            b = bad[0]
            seen.setdefault("dtype-dependence", "waveform %r handed over as %s: features %r differ from the float64 features %r"
                            % (batch[b].T.tolist(), np.dtype(dt).name, dict(zip(cols, a2[b])), dict(zip(cols, arr[b]))))
    # the caller's floating-point error state is the caller's business: with every numpy floating-point error turned into an exception (np.errstate(all="raise"),
    # as debugging sessions and strict pipelines run) extraction still succeeds and gives the same features (troughs on the last sample make 0 / 0 slopes)
    try:
        with np.errstate(all="raise"):
            _, a2 = _rows(features(batch, d))
        ncalls += 1
        if not np.array_equal(a2, arr, equal_nan=True):
            b = int(np.flatnonzero(~np.all((a2 == arr) | (np.isnan(a2) & np.isnan(arr)), axis=1))[0])
            seen.setdefault("errstate-dependence", "waveform %r: features under np.errstate(all='raise') %r differ from those under the default error state %r"
                            % (batch[b].T.tolist(), dict(zip(cols, a2[b])), dict(zip(cols, arr[b]))))
    except Exception as e:
        seen.setdefault("errstate:exc:%s" % type(e).__name__, "compute_spike_features raised %s: %s on a batch of %d admissible waveforms (T=%d) when the caller runs with np.errstate(all='raise'); "
                        "under the default error state it succeeds" % (type(e).__name__, e, batch.shape[0], T))
    # scaling by c > 0: values scale, indices stay (whole batch at once)
    for cscale in (0.5, 3.0):
        _, a2 = _rows(features(batch * cscale, d))
        ncalls += 1
        bad = np.flatnonzero(~(np.all(a2[:, :ni] == arr[:, :ni], axis=1) & np.all(np.isclose(a2[:, ni:], arr[:, ni:] * cscale, rtol=1e-12, atol=0), axis=1)))
        if bad.size:
            b = bad[0]
            seen.setdefault("scaling", "waveform %r scaled by %r: indices %r -> %r, values %r -> %r"
                            % (batch[b].T.tolist(), cscale, arr[b][:ni].tolist(), a2[b][:ni].tolist(), arr[b][ni:].tolist(), a2[b][ni:].tolist()))
    # channel permutation only permutes the peak-channel index (waveforms with an untied peak channel)
    if C > 1:
        a = np.abs(batch)
        chmax = a.max(axis=1)                                  # (N, C)
        untied = np.sum(chmax == chmax.max(axis=1, keepdims=True), axis=1) == 1
        for perm in ([list(range(1, C)) + [0]] + ([[1, 0, 2]] if C == 3 else [])):
            _, a3 = _rows(features(batch[:, :, perm], d))
            ncalls += 1
            exp = arr.copy()
            exp[:, 0] = np.array([perm.index(int(c)) for c in arr[:, 0]])
            bad = np.flatnonzero(untied & ~np.all((a3 == exp) | (np.isnan(a3) & np.isnan(exp)), axis=1))
            if bad.size:
                b = bad[0]
                seen.setdefault("channel-permutation", "waveform %r with channels permuted %r: features %r, expected %r"
                                % (batch[b].T.tolist(), perm, a3[b].tolist(), exp[b].tolist()))
    for k, m in seen.items():
        v.append((k, m))
    return Res(v, o=(alpha, T, C, tuple(sorted(classes))), tr=ncalls)


# ------------------------------------------------------------------ realistic family
def real_cases(tier, seed):
    out = []
    for T in (10, 16, 40, 82, 121, 200):
        for C in (1, 2, 7, 40):
            for pol in (1, -1):
                out.append((T, C, pol))
    return out


def real_check(case):
    T, C, pol = case
    rng = np.random.default_rng(T * 100 + C + (0 if pol > 0 else 7))
    base = generate_waveform().T                     # (121, 40)
    base = base / np.abs(base).max()
    v = []
    seen = {}
    wavs = []
    # the model spike resampled to T samples, C channels around the peak channel, both polarities, scaled, with noise
    pk = int(np.argmax(np.abs(base).max(axis=0)))
    ch = [(pk + j) % 40 for j in range(C)]
    idx = np.clip(np.round(np.linspace(0, 120, T)).astype(int), 0, 120)
    w0 = base[idx][:, ch] * pol
    for scale in (1.0, 37.5e-6):
        for noise in (0.0, 0.02):
            w = w0 * scale + noise * scale * rng.standard_normal(w0.shape)
            wavs.append(w)
            if C > 2:
                wn = w.copy()
                wn[:, -2:] = np.nan                      # NaN-padded channels
                wavs.append(wn)
                wm = w.copy()
                wm[:, 1] = np.nan                        # a padded channel that is not the last one (channels reordered / peak near the probe tip)
                wavs.append(wm)
                wavs.append(np.roll(wn, 1, axis=1))      # padding first, then the peak channel
    # extremum forced onto each of the last 8 samples (peak at T-1-j ... trough at the very end)
    for j in range(0, min(8, T - 2)):
        w = np.zeros((T, C))
        w[T - 2 - j, 0] = -1.0 * pol                     # peak
        w[T - 1 - j:, 0] = 0.4 * pol                     # trough plateau reaching the last sample
        w[1, 0] = 0.1 * pol
        wavs.append(w + 0.0)
        w2 = w.copy()
        w2[T - 1, 0] = 0.7 * pol                         # trough exactly on the last sample
        wavs.append(w2)
    wavs = [w for w in wavs if admissible(w)]
    batch = np.stack(wavs)
    for d in (2, 5):
        try:
            df = features(batch, d)
        except Exception as e:
            seen.setdefault("batch:exc:%s" % type(e).__name__, "T=%d C=%d pol=%d d=%d: %s: %s" % (T, C, pol, d, type(e).__name__, e))
            continue
        cols, arr = _rows(df)
        for i in range(batch.shape[0]):
            w = np.nan_to_num(batch[i])
            r = check_one(w, dict(zip(cols, arr[i])), d, T)
            if r is not None:
                seen.setdefault(r[0], "realistic waveform #%d (T=%d, C=%d, pol=%d, d=%d): %s" % (i, T, C, pol, d, r[1]))
            d1 = features(batch[i][None], d)
            _, a1 = _rows(d1)
            if not np.array_equal(a1[0], arr[i], equal_nan=True):
                seen.setdefault("batch-dependence", "realistic waveform #%d (T=%d, C=%d): features alone differ from features in the batch" % (i, T, C))
    for k, m in seen.items():
        v.append((k, m))
    return Res(v, o=(T > 50, C > 1, pol), tr=2 * len(wavs) * 2)


# ------------------------------------------------------------------ batches larger than every internal block size
# ------------------------------------------------------------------ the recovery offset at every sampling rate x recovery duration
RATES = (2500, 2500.0, 12500, 20000, 20500, 24414.0625, 25000, 30000, 30000.4, 32000, 44100)
DURATIONS_MS = (0.16, 0.3, 0.6, 0.8, 1.0, 2.0, 4.0)


def rate_cases(tier, seed):
    return [(fs, ms) for fs in RATES for ms in DURATIONS_MS]


def rate_check(case):
    """the recovery offset is the recovery duration in samples at the given rate: trough + offset, or the last sample when that runs past the end"""
    fs, ms = case
    exact = ms * float(fs) / 1000.0
    if abs(exact - np.floor(exact) - 0.5) < 0.05:
        return Res([], o=("ambiguous-rounding",), nt=False)
    d = int(np.floor(exact + 0.5))
    T = max(24, 2 * d + 8)
    # peaks at every position that leaves room for a trough; trough 2 samples after the peak
    batch = []
    for p in range(2, T - 2):
        for pol in (-1.0, 1.0):
            w = np.zeros((T, 2))
            w[p - 1, 0], w[p, 0], w[p + 2 if p + 2 < T else T - 1, 0] = -4 * pol, -20 * pol, 6 * pol
            w[:, 1] = 0.25 * w[:, 0]
            batch.append(w)
    batch = np.array(batch)
    try:
        df = waveforms.compute_spike_features(batch.copy(), fs=fs, recovery_duration_ms=ms)
    except Exception as e:
        return Res([("rates:exc:%s" % type(e).__name__, "fs=%r recovery_duration_ms=%r: %s: %s" % (fs, ms, type(e).__name__, e))])
    cols, arr = _rows(df)
    v = []
    nfall = 0
    for i in range(batch.shape[0]):
        row = dict(zip(cols, arr[i]))
        bad = check_one(np.nan_to_num(batch[i]), row, d, T)
        nfall += int(row["trough_time_idx"]) + d > T - 1
        if bad:
            v.append(("rates:" + bad[0], "fs=%r recovery_duration_ms=%r (offset %d samples), waveform with its peak at sample %d of %d: %s" % (fs, ms, d, 2 + i // 2, T, bad[1])))
            break
    return Res(v, o=(d > 5, nfall > 0, nfall < batch.shape[0]), tr=batch.shape[0])


def big_cases(tier, seed):
    from mc import thresholds
    mined = thresholds.beyond(thresholds.mine([waveforms], 200, 40000), cap=45000)
    return [(n,) for n in sorted(set(mined + [4200, 8300, 66000]))]


def big_check(case):
    """a batch of N waveforms: the features of rows picked around every threshold equal their features alone (weakly positive spikes included)"""
    n = case[0]
    T, C = 20, 2
    rng = np.random.default_rng(n)
    tmpl_neg = np.zeros(T)
    tmpl_neg[[6, 7, 8, 9, 12]] = (-3, -9, -20, -6, 5)
    tmpl_pos = np.zeros(T)
    tmpl_pos[[6, 7, 8, 10, 11]] = (2, 10, 4, -8, -3)             # positive peak, |peak/trough| <= 1.5: the documented trough swap
    batch = np.zeros((n, T, C))
    kind = rng.integers(0, 3, n)
    amp = 1.0 + rng.integers(0, 5, n)
    for kk, tm in ((0, tmpl_neg), (1, tmpl_pos), (2, -tmpl_neg * 0.5 + np.r_[np.zeros(13), -12, np.zeros(6)])):
        idx = np.flatnonzero(kind == kk)
        batch[idx, :, 0] = tm[None, :] * amp[idx, None]
        batch[idx, :, 1] = 0.3 * tm[None, :] * amp[idx, None]
    batch = np.roll(batch, 1, axis=2) * 1.0
    batch[::2] = batch[::2, :, ::-1]
    v = []
    try:
        df = features(batch, 5)
    except Exception as e:
        return Res([("big-batch:exc:%s" % type(e).__name__, "batch of %d waveforms: %s: %s" % (n, type(e).__name__, e))])
    cols, arr = _rows(df)
    if arr.shape[0] != n:
        return Res([("big-batch:rows", "%d rows for %d waveforms" % (arr.shape[0], n))])
    from mc import thresholds
    marks = sorted({0, 1, n - 1, n // 2} | {m + d for m in thresholds.mine([waveforms], 200, 40000) + [4096, 8192, 65536] for d in (-1, 0, 1, 54) if 0 <= m + d < n})
    pick = sorted(set(marks) | set(rng.integers(0, n, 40).tolist()))
    ntr = 1
    for i in pick:
        _, a1 = _rows(features(batch[i][None], 5))
        ntr += 1
        if not np.array_equal(a1[0], arr[i], equal_nan=True):
            v.append(("batch-dependence:large-batch", "waveform #%d of a batch of %d: features in the batch %r differ from its features alone %r"
                      % (i, n, dict(zip(cols, arr[i])), dict(zip(cols, a1[0])))))
            break
    return Res(v, o=n, tr=ntr)


CHECK = {
    "property": "C14",
    "rule": "every waveform of length T over a 5-value alphabet (1 channel) / 3-value alphabet (2-3 channels) whose largest |deflection| is not on the "
            "first sample; one case = (alphabet, T, recovery offset, first sample value), the check enumerates the rest; non-trivial = all admissible",
    "assumptions": [
        "ties are tolerated: the features must be right for some global |.| extremum / some position of a tied extremum",
        "'back within half of the peak value' accepts the strict and the non-strict reading",
        "the trough is the extremum of the post-peak segment including the peak sample; the swap applies to a positive peak with |peak/trough| <= 1.5",
        "batch independence is decided on every waveform by re-running the batch reversed and odd/even-interleaved; singleton batches are run for <= 150 waveforms per case",
    ],
    "clauses": [
        Clause("small", "all small waveforms, batch + singletons + scaling + channel permutation", cases=small_cases, check=small_check),
        Clause("large-batches", "batches just beyond every size constant mined from ibldsp.waveforms (and 4200 / 8300 / 66000 waveforms): rows = features alone", cases=big_cases, check=big_check),
        Clause("rates", "sampling rate x recovery duration (LF / AP / odd rates, 0.16 - 4 ms): the recovery point is the trough plus the duration in samples, or the last sample past the end",
               cases=rate_cases, check=rate_check),
        Clause("realistic", "model spikes of either polarity, lengths 10-200, 1-40 channels, NaN channels, extrema on the last samples", cases=real_cases, check=real_check),
        _layouts.make_clause(__import__("checks._layout_specs", fromlist=["x"]).c14()),
    ],
}
