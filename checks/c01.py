"""
C01 - Reader returns calibrated voltages aligned with the probe geometry.  Engine E1.

Configurations (probe kind x encoding x sorted/unsorted x bin/cbin, non-identity site order, non-uniform gains)
x every sample selector x every channel selector of a small recording, against NumPy indexing of the reference
calibrated, permuted array.  A second clause runs every int16 value through every gain class.
"""
import os

import numpy as np

from mc.engine import Clause, Res
from mc import synth, refmodel

import spikeglx

NS = 4          # samples in the small recording
CHUNK = 3       # compression chunk (samples): slices straddle chunks


def _sites_for(kind, variant=0):
    fam = synth.family(kind)
    if fam == "NP1":
        base = [(0, 3, 1), (0, 0, 2), (0, 1, 3), (0, 0, 0)]
    elif kind.startswith("NP2.4"):
        base = [[(3, 0, 1), (0, 1, 0), (2, 0, 0), (0, 0, 1)],       # 3 shanks, interleaved
                [(0, 2, 0), (0, 0, 1), (0, 0, 0), (0, 1, 1)],       # one shank
                [(1, 5, 1), (0, 7, 0), (3, 1, 1), (2, 2, 0)]][variant]  # four shanks
    elif fam == "NP2":
        base = [(0, 4, 0), (0, 0, 1), (0, 4, 1), (0, 2, 0)]
    else:  # NPultra
        base = [(0, 1, 7), (0, 0, 3), (0, 1, 0), (0, 0, 5)]
    return base


def configs(tier):
    out = []
    for kind in ("3A", "3B1", "3B2", "NP2.1", "NP2.1b", "NP2.4", "NP2.4b", "NPultra"):
        variants = (0, 1, 2) if kind == "NP2.4" else (0,)
        for var in variants:
            encs = ("shank", "geom") if kind in ("3B2", "NP2.1b", "NP2.4b") else ("shank",)
            for enc in encs:
                for sort in (True, False):
                    for suffix in (".bin", ".cbin"):
                        for stream in (("ap", "lf") if kind in ("3B2", "3A") and enc == "shank" else ("ap",)):
                            out.append(dict(kind=kind, var=var, enc=enc, sort=sort, suffix=suffix, stream=stream, imro_extra=0))
    # recordings saved without the sync word
    for kind in ("NP2.1", "NP2.4", "3B2", "NPultra"):
        for suffix in (".bin", ".cbin"):
            out.append(dict(kind=kind, var=0, enc="shank", sort=True, suffix=suffix, stream="ap", imro_extra=0, nsync=0))
    # imro table longer than the saved channels (SpikeGLX always writes 384 entries)
    out.append(dict(kind="3B2", var=0, enc="shank", sort=True, suffix=".bin", stream="ap", imro_extra=3))
    for suffix in (".bin", ".cbin"):
        out.append(dict(kind="nidq", var=0, enc="shank", sort=True, suffix=suffix, stream="nidq", imro_extra=0))
    return out


def _ints(n):
    return list(range(-n, n))


def _slices(n, steps):
    vals = [None] + list(range(-n - 1, n + 2))
    return [(a, b, s) for a in vals for b in vals for s in steps]


def _lists(n):
    idx = list(range(-n, n))
    return [[]] + [[i] for i in idx] + [[i, j] for i in idx for j in idx]


def sample_selectors(tier):
    steps = (None, 1, -1, 2, -2, 3, -3)
    sel = [("i", i) for i in _ints(NS)]
    sel += [("s", s) for s in _slices(NS, steps)]
    sel += [("l", x) for x in _lists(NS)]
    return sel


def _is_core(sel, n):
    """the reduced selector set used for the cross product in the quick tier (every kind of selector, boundary values)"""
    t, x = sel
    if t in ("i", "a"):
        return True
    if t == "s":
        a, b, st = x
        vals = (None, -n - 1, -2, 0, 1, n, n + 1)
        return a in vals and b in vals and st in (None, -1, 2, -2, 3)
    if t == "l":
        return len(x) <= 1 or x in ([0, n - 1], [n - 1, 0], [-1, 1], [1, 1])
    return False


PRIMARY = [dict(kind="NP2.4", var=0, enc="shank", sort=True), dict(kind="3B2", var=0, enc="geom", sort=True),
           dict(kind="nidq", var=0, enc="shank", sort=True), dict(kind="NP2.4b", var=0, enc="geom", sort=True)]


def _is_primary(cfg):
    return cfg["stream"] != "lf" and cfg["imro_extra"] == 0 and any(all(cfg[k] == p[k] for k in p) for p in PRIMARY)


def channel_selectors(tier, nc):
    steps = (None, 1, -1, 2, -2, 3, -3)
    sel = [("i", i) for i in _ints(nc)]
    sel += [("s", s) for s in _slices(nc, steps)]
    sel += [("l", x) for x in _lists(nc)]
    sel += [("a", [0, nc - 1]), ("a", [])]         # numpy arrays instead of lists
    return sel


def _mk(sel):
    t, x = sel
    if t == "i":
        return x
    if t == "s":
        return slice(*x)
    if t == "l":
        return list(x)
    return np.array(x, dtype=int)


_CACHE = {}


def _open_config(ci, tier="quick"):
    key = (os.getpid(), ci)
    if key in _CACHE:
        return _CACHE[key]
    cfg = configs(tier)[ci]
    d = os.path.join(synth.proc_scratch(), "c01_%d" % ci)
    os.makedirs(d, exist_ok=True)
    kind = cfg["kind"]
    if kind == "nidq":
        nc = 4
        raw = synth.separating_data(NS, nc, seed=ci)
        items = synth.nidq_items(NS, mn=1, ma=1, xa=1, dw=1, mngain=200, magain=4)
        stem = "c01_g0_t0.nidq"
        i2v = 5 / 32768
        s2v = [i2v / 200, i2v / 4, i2v, 1.0]
        order = list(range(nc))
        sites = None
        nsync = 1
    else:
        sites = _sites_for(kind, cfg["var"])
        k = len(sites)
        nsync = cfg.get("nsync", 1)
        nc = k + nsync
        raw = synth.separating_data(NS, nc, seed=ci)
        gains = [(synth.GAINS[(2 * i + 1) % 8], synth.GAINS[(3 * i + 2) % 8]) for i in range(k)]
        gains_file = gains + [(3000, 50)] * cfg["imro_extra"]
        items = synth.meta_items(kind, sites, NS, stream=cfg["stream"], encoding=cfg["enc"], gains=gains, nsync=nsync)
        if cfg["imro_extra"]:
            # rewrite the imro table with extra trailing entries
            it2 = synth.meta_items(kind, sites + [(0, 9, 1 if synth.family(kind) != "NP1" else 1)] * 0, NS, stream=cfg["stream"],
                                   encoding=cfg["enc"], gains=gains)
            hdr = "(0,%d)" % (k + cfg["imro_extra"])
            ent = "".join("(%d 0 0 %d %d 1)" % (i, g[0], g[1]) for i, g in enumerate(gains_file))
            items = [(a, hdr + ent) if a.endswith("imroTbl") else (a, b) for a, b in it2]
        stem = "c01_g0_t0.imec0.%s" % cfg["stream"]
        s2v = synth.ref_s2v(kind, cfg["stream"], k, nsync, gains=gains)
        order = (synth.ref_sort_order(sites) if cfg["sort"] else list(range(k))) + [k] * nsync
    fbin = synth.write_recording(d, stem, raw, items)
    if cfg["suffix"] == ".cbin":
        import mtscomp
        fs = 30000 if cfg["stream"] != "lf" else 2500
        mtscomp.compress(fbin, fbin.replace(".bin", ".cbin"), fbin.replace(".bin", ".ch"), sample_rate=fs, n_channels=nc,
                         dtype=np.int16, chunk_duration=CHUNK / fs, n_threads=1, check_after_compress=False, quiet=True)
        os.unlink(fbin)
        fbin = fbin.replace(".bin", ".cbin")
    sr = spikeglx.Reader(fbin, sort=cfg["sort"])
    full = refmodel.calibrated(raw, s2v)[:, order]
    _CACHE[key] = (cfg, sr, full, sites, order, nc)
    return _CACHE[key]


TIER = ["quick"]


def _setup(tier, seed):
    TIER[0] = tier


def sel_cases(tier, seed):
    cfgs = configs(tier)
    ssel = sample_selectors(tier)
    core = [si for si, x in enumerate(ssel) if _is_core(x, NS)]
    out = []
    for ci, cfg in enumerate(cfgs):
        if tier == "thorough" or _is_primary(cfg):
            out += [(ci, si) for si in range(len(ssel))]
        else:
            out += [(ci, si) for si in core]
    return out


def _expected(full, nsel, csel):
    """NumPy indexing of the whole calibrated array, rows first then columns (outer product semantics)"""
    try:
        return full[nsel, :][..., csel], None
    except IndexError as e:
        return None, e


def sel_check(case):
    ci, si = case
    cfg, sr, full, sites, order, nc = _open_config(ci)
    ssel = sample_selectors("quick")[si]
    csels = channel_selectors("quick", nc)
    if TIER[0] != "thorough" and not (_is_primary(cfg) and _is_core(ssel, NS)):
        csels = [c for c in csels if _is_core(c, nc)]       # quick tier: full x core and core x full on the primary configurations
    v = []
    nsel = _mk(ssel)
    is_list_n = ssel[0] == "l"
    if is_list_n and cfg["suffix"] == ".cbin":
        return Res([], o="skip", nt=False, tr=0)       # lists of sample indices: uncompressed files only
    seen = {}
    ntr = 0
    for cs in csels:
        if is_list_n and cs[0] in ("l", "a"):
            continue                                   # index arrays on both axes at once: not covered by the property
        csel = _mk(cs)
        exp, err = _expected(full, nsel, csel)
        ntr += 1
        try:
            got = sr[nsel, csel]
        except IndexError as e:
            if err is None:
                seen.setdefault("read:IndexError", "sr[%r, %r] raised IndexError (%s) where NumPy indexing returns shape %r" % (nsel, csel, e, exp.shape))
            continue
        except Exception as e:
            seen.setdefault("read:%s" % type(e).__name__, "sr[%r, %r] raised %s: %s" % (nsel, csel, type(e).__name__, e))
            continue
        if err is not None:
            seen.setdefault("read:no-IndexError", "sr[%r, %r] returned shape %r where NumPy indexing raises IndexError" % (nsel, csel, np.shape(got)))
            continue
        got = np.asarray(got)
        if got.dtype != np.float32:
            seen.setdefault("dtype", "sr[%r, %r] has dtype %s" % (nsel, csel, got.dtype))
        if got.shape != exp.shape:
            neg = ssel[0] == "s" and ssel[1][2] is not None and ssel[1][2] < 0
            key = "layout:shape" + (":cbin-negative-step" if (neg and cfg["suffix"] == ".cbin") else "")
            seen.setdefault(key, "sr[%r, %r] has shape %r, NumPy indexing of the calibrated array gives %r (%s)"
                            % (nsel, csel, got.shape, exp.shape, _cfgstr(cfg)))
        elif not refmodel.calib_close(got, exp):
            seen.setdefault("values", "sr[%r, %r] = %r, expected float32(raw) x volts-per-bit = %r (%s)"
                            % (nsel, csel, got.ravel()[:4].tolist(), exp.ravel()[:4].tolist(), _cfgstr(cfg)))
    # the other entry points agree with __getitem__ for this sample selector
    if not is_list_n:
        try:
            a = sr.read(nsel=nsel, csel=slice(None), sync=False)
            exp, err = _expected(full, nsel, slice(None))
            if err is None and (np.shape(a) != exp.shape or not refmodel.calib_close(np.asarray(a), exp)):
                seen.setdefault("read()", "read(nsel=%r) differs from the calibrated array" % (nsel,))
            if isinstance(nsel, (int, slice)):
                b = sr[nsel]
                if err is None and (np.shape(b) != exp.shape or not refmodel.calib_close(np.asarray(b), exp)):
                    seen.setdefault("getitem1", "sr[%r] differs from the calibrated array" % (nsel,))
            if isinstance(nsel, slice) and nsel.step is None and nsel.start is not None and nsel.stop is not None:
                c, _sy = sr.read_samples(nsel.start, nsel.stop)
                if np.shape(c) != exp.shape or not refmodel.calib_close(np.asarray(c), exp):
                    seen.setdefault("read_samples", "read_samples(%r, %r) differs" % (nsel.start, nsel.stop))
                c2 = sr.read_samples(nsel.start, nsel.stop, channels=np.array([1, 0]))[0]
                e2 = full[nsel, :][:, [1, 0]]
                if np.shape(c2) != e2.shape or not refmodel.calib_close(np.asarray(c2), e2):
                    seen.setdefault("read_samples:channels", "read_samples(channels=[1,0]) differs")
            ntr += 3
        except IndexError:
            pass
        except Exception as e:
            seen.setdefault("read:%s" % type(e).__name__, "read(%r) raised %s: %s" % (nsel, type(e).__name__, e))
    for k, m in seen.items():
        v.append((k, m))
    nontrivial = order != sorted(order)
    return Res(v, o=(cfg["kind"], cfg["sort"], cfg["suffix"], ssel[0]), nt=nontrivial, tr=ntr)


def _cfgstr(cfg):
    return "%s/%s/sort=%s/%s/%s" % (cfg["kind"], cfg["enc"], cfg["sort"], cfg["suffix"], cfg["stream"])


# ------------------------------------------------------------------ geometry alignment
def geom_cases(tier, seed):
    return list(range(len(configs(tier))))


def geom_check(ci):
    cfg, sr, full, sites, order, nc = _open_config(ci)
    v = []
    if cfg["kind"] == "nidq":
        if sr.geometry is not None:
            v.append(("geometry:nidq", "nidq reader has a geometry"))
        return Res(v, o="nidq", nt=False)
    g = sr.geometry
    k = len(sites)
    exp_sites = [sites[i] for i in order[:k]]
    got_sites = [(int(g["shank"][i]), int(g["row"][i]), int(g["col"][i])) for i in range(k)]
    if got_sites != exp_sites:
        v.append(("geometry:order", "entry i of the geometry %r is not the site of column i %r (%s)" % (got_sites, exp_sites, _cfgstr(cfg))))
    if cfg["sort"]:
        keys = [(s[0], s[1], -s[2]) for s in got_sites]
        if keys != sorted(keys):
            v.append(("geometry:sorted", "geometry not ordered by shank, row, descending column: %r" % (got_sites,)))
    xy = [synth.site_xy(cfg["kind"], s) for s in exp_sites]
    if [(float(a), float(b)) for a, b in zip(g["x"], g["y"])] != [(float(a), float(b)) for a, b in xy]:
        v.append(("geometry:xy", "x/y %r differ from the grid positions %r" % (list(zip(g["x"], g["y"])), xy)))
    if list(np.asarray(g["ind"]).astype(int)) != order[:k]:
        v.append(("geometry:ind", "geometry['ind'] %r != on-disk index of each column %r" % (list(g["ind"]), order[:k])))
    return Res(v, o=(cfg["kind"], cfg["sort"]), nt=order != sorted(order))


# ------------------------------------------------------------------ results of earlier reads stay valid after later reads
def hist_cases(tier, seed):
    return list(range(len(configs(tier))))


def hist_check(ci):
    cfg, sr, full, sites, order, nc = _open_config(ci)
    seen = {}
    sels = [(slice(0, 2), 1), (slice(2, 4), 1), (slice(0, 2), 0), (1, slice(None)), (3, slice(None)), (slice(0, 2), slice(0, 2)), (slice(2, 4), slice(0, 2)),
            (slice(None), -1), (slice(None), 2), (0, 1), (2, 1), (slice(1, 3), [0, 2]), (slice(0, 2), [0, 2])]
    kept = []
    for nsel, csel in sels:
        got = sr[nsel, csel]
        kept.append((nsel, csel, got, np.array(got, copy=True)))
    for nsel, csel, got, copy0 in kept:
        exp, _ = _expected(full, nsel, csel)
        if not np.array_equal(np.asarray(got), copy0) or not refmodel.calib_close(np.asarray(got), exp):
            seen.setdefault("result-altered-by-later-read", "the array returned by sr[%r, %r] changed after later reads on the same reader (%s)" % (nsel, csel, _cfgstr(cfg)))
    # two readers on the same file do not influence each other
    sr2 = spikeglx.Reader(sr.file_bin, sort=cfg["sort"])
    try:
        a = sr[0:3, :]
        b = sr2[1:4, :]
        if not refmodel.calib_close(np.asarray(a), full[0:3, :]) or not refmodel.calib_close(np.asarray(b), full[1:4, :]):
            seen.setdefault("two-readers", "two readers on the same file return wrong data when used alternately (%s)" % _cfgstr(cfg))
    finally:
        sr2.close()
    return Res(list(seen.items()), o=(cfg["kind"], cfg["suffix"]), tr=len(sels) + 2)


# ------------------------------------------------------------------ reads that span more samples than any internal block size
def long_cases(tier, seed):
    from mc import thresholds
    ths = [t for t in thresholds.mine([spikeglx], 20000, 2_000_000)]
    top = max(ths) if ths else 1_000_000
    return [(suffix, int(top * 1.25) + 7, tuple(ths)) for suffix in (".bin", ".cbin")]


def long_check(case):
    """a recording longer than every block / batch / chunk size found in the reader's source: strided and reversed slices, integers at the thresholds"""
    suffix, ns, ths = case
    d = synth.proc_scratch(clean=True)
    k = 3
    sites = [(0, 1, 1), (0, 0, 0), (0, 1, 0)]                     # a non-identity sorted order
    raw = np.empty((ns, k + 1), dtype=np.int16)
    t = np.arange(ns, dtype=np.int64)
    for c in range(k + 1):
        raw[:, c] = ((t * (37 + 2 * c) + 101 * c) % 65536 - 32768).astype(np.int16)
    fbin = synth.write_recording(d, "long_g0_t0.imec0.ap", raw, synth.meta_items("NP2.1", sites, ns))
    s2v = np.array(synth.ref_s2v("NP2.1", "ap", k, 1), dtype=np.float64)
    order = synth.ref_sort_order(sites) + [k]
    if suffix == ".cbin":
        sr0 = spikeglx.Reader(fbin)
        sr0.compress_file(keep_original=False, n_threads=1, quiet=True, check_after_compress=False)
        sr0.close()
        fbin = fbin.replace(".bin", ".cbin")
    v = []
    sr = spikeglx.Reader(fbin)
    sels = [slice(None, None, 3), slice(5, None, 7), slice(None, None, -7), slice(100, ns - 100, 11), slice(ns - 3, 2, -13), slice(ns // 2 + 1, None, 1),
            slice(0, ns, 30), slice(1, ns, 12)]
    for th in ths:
        sels += [th - 1, th, th + 1, slice(th - 2, th + 3), slice(0, th + 5, 9)]
    if suffix == ".bin":
        # arrays of sample indices in the integer types such indices are stored in (spike samples as int32 / uint32, short tables as int16 / uint16 / uint8):
        # the index times the channel count leaves the range of the narrow types long before the index does
        for dt, top in ((np.int16, 32767), (np.uint16, 65535), (np.uint8, 255), (np.int32, ns - 1), (np.uint32, ns - 1), (np.int64, ns - 1)):
            top = min(top, ns - 1)
            sels.append(np.array([0, 5, top // 3, top - 1, top, 86, 171], dtype=dt))
    ntr = 0
    try:
        for sel in sels:
            try:
                got = sr[sel, :]
            except Exception as e:
                v.append(("long-read:exc:%s" % type(e).__name__, "%s of %d samples: sr[%r, :] raised %s: %s" % (suffix, ns, sel, type(e).__name__, e)))
                break
            ntr += 1
            rows = raw[sel][..., order]
            exp = rows.astype(np.float32).astype(np.float64) * s2v[order]
            if np.asarray(got).shape != exp.shape:
                v.append(("long-read:shape", "%s of %d samples: sr[%r, :] has shape %r, NumPy indexing of the whole array gives %r" % (suffix, ns, sel, np.asarray(got).shape, exp.shape)))
                break
            if not refmodel.calib_close(np.asarray(got), exp):
                v.append(("long-read:values", "%s of %d samples: sr[%r, :] returns other samples than NumPy indexing of the calibrated array" % (suffix, ns, sel)))
                break
    finally:
        sr.close()
    return Res(v, o=suffix, tr=ntr)


# ------------------------------------------------------------------ what else lies in the folder / how the file is named
def folder_cases(tier, seed):
    return [(kind, place, suffix, sort) for kind in ("3B2", "NP2.4") for place in ("uuid+decoy", "symlink", "dots-in-folder") for suffix in (".bin", ".cbin") for sort in (True, False)]


def folder_check(case):
    """the recording's own metadata decide gains and geometry - not a metadata file of another acquisition that happens to lie in the same folder or next to a link's target"""
    import os
    import shutil
    kind, place, suffix, sort = case
    d = os.path.join(synth.proc_scratch(), "c01folder")
    shutil.rmtree(d, ignore_errors=True)
    sess = os.path.join(d, "sess.ap.lf.imec_probe00" if place == "dots-in-folder" else "sess")
    os.makedirs(sess)
    k = 6
    # rows descending in file order: sorting is a real permutation (NP1 sites sit on the checkerboard: even rows columns 0 / 2, odd rows 1 / 3)
    sites = [(i % 4, 5 - i, i % 2) if kind == "NP2.4" else (0, 5 - i, ((5 - i) % 2) + 2 * (i % 2)) for i in range(k)]
    gains = [(synth.GAINS[(i * 3) % 8], 250) for i in range(k)] if synth.family(kind) == "NP1" else None
    ns = 40
    raw = ((np.arange(ns)[:, None] * 37 + np.arange(k + 1)[None, :] * 1013) % 4001 - 2000).astype(np.int16)
    stem = "rec_g0_t0.imec0.ap"
    fbin = synth.write_recording(sess, stem, raw, synth.meta_items(kind, sites, ns, gains=gains))
    if suffix == ".cbin":
        sr0 = spikeglx.Reader(fbin)
        sr0.compress_file(keep_original=False, n_threads=1, quiet=True, check_after_compress=False)
        sr0.close()
        fbin = fbin.replace(".bin", ".cbin")
    companions = [fbin.replace(suffix, ".meta")] + ([fbin.replace(".cbin", ".ch")] if suffix == ".cbin" else [])
    # the decoy: same probe, other gains, sites in the reverse order, another length
    decoy_sites = sites[::-1]
    decoy_gains = [(synth.GAINS[(i * 5 + 1) % 8], 125) for i in range(k)] if gains else None
    decoy = synth.meta_text(synth.meta_items(kind, decoy_sites, ns + 9, gains=decoy_gains, **({} if gains else {"vrange": 0.62, "maxint": 2048})))
    if place == "uuid+decoy":
        uid = "0f1e2d3c-1111-4222-8333-444455556666"
        new = []
        for f in [fbin] + companions:
            root, ext = os.path.splitext(f)
            os.rename(f, "%s.%s%s" % (root, uid, ext))
            new.append("%s.%s%s" % (root, uid, ext))
        fbin = new[0]
        open(os.path.join(sess, stem + ".meta"), "w").write(decoy)
    elif place == "symlink":
        store = os.path.join(d, "store")
        os.makedirs(store)
        tgt = os.path.join(store, stem + suffix)          # same name in the store folder, with ANOTHER metadata file next to it
        os.rename(fbin, tgt)
        os.symlink(tgt, fbin)
        open(os.path.join(store, stem + ".meta"), "w").write(decoy)
    v = []
    s2v = synth.ref_s2v(kind, "ap", k, 1, gains=gains)
    order = (synth.ref_sort_order(sites) if sort else list(range(k))) + [k]
    exp = refmodel.calibrated(raw, s2v)[:, order]
    ctx = "%s %s recording, %s, sort=%s" % (kind, suffix, {"uuid+decoy": "UUID in the dataset names and a UUID-less metadata file of another acquisition in the folder",
                                                         "symlink": "data file is a symbolic link into a folder holding another acquisition's metadata",
                                                         "dots-in-folder": "session folder named sess.ap.lf.imec_probe00"}[place], sort)
    try:
        sr = spikeglx.Reader(fbin, sort=sort)
        got = sr[:, :]
        g = sr.geometry
        sr.close()
        if tuple(np.shape(got)) != exp.shape or not refmodel.calib_close(np.asarray(got), exp):
            v.append(("folder:%s:values" % place, "%s: the voltages are not float32(raw) x the recording's own volts-per-bit in the expected channel order (shape %r, expected %r)" % (ctx, np.shape(got), exp.shape)))
        rows = [sites[i][1] for i in order[:k]]
        if [int(r) for r in np.asarray(g["row"])] != rows:
            v.append(("folder:%s:geometry" % place, "%s: geometry rows %r, the recording's own site table gives %r" % (ctx, np.asarray(g["row"]).astype(int).tolist(), rows)))
    except Exception as e:
        v.append(("folder:%s:exc:%s" % (place, type(e).__name__), "%s: %s: %s" % (ctx, type(e).__name__, e)))
    shutil.rmtree(d, ignore_errors=True)
    return Res(v, o=(kind, place, suffix), tr=1)


# ------------------------------------------------------------------ every int16 value through every gain class
def value_cases(tier, seed):
    out = []
    for kind, vr, mi in (("3A", None, None), ("3B2", None, None), ("NPultra", 0.6, 512), ("NP2.1", 0.5, 8192), ("NP2.4b", 0.62, 2048),
                         ("NP2.4", 0.6, 512), ("NP2.1b", 0.62, 8192)):
        for stream in (("ap", "lf") if synth.family(kind) == "NP1" else ("ap",)):
            for suffix in (".bin", ".cbin"):
                out.append((kind, vr, mi, stream, suffix))
    out.append(("nidq", None, None, "nidq", ".bin"))
    return out


def value_check(case):
    kind, vr, mi, stream, suffix = case
    d = synth.proc_scratch(clean=True)
    allv = np.arange(-32768, 32768, dtype=np.int64)
    v = []
    if kind == "nidq":
        nc = 4
        raw = np.stack([np.roll(allv, 7919 * c) for c in range(nc)], axis=1).astype(np.int16)
        fbin = synth.write_recording(d, "val_g0_t0.nidq", raw, synth.nidq_items(65536, mn=1, ma=1, xa=1, dw=1, mngain=200, magain=4))
        i2v = 5 / 32768
        s2v = [i2v / 200, i2v / 4, i2v, 1.0]
        order = list(range(nc))
    else:
        fam = synth.family(kind)
        if fam == "NP1":
            sites = [(0, r, c) for r in range(4) for c in ((2, 0) if r % 2 == 0 else (3, 1))]
        elif fam == "NP2":
            sites = [(0, i // 2, i % 2) for i in range(8)]
        else:
            sites = [(0, 0, i) for i in range(8)]
        k = 8
        gains = [(synth.GAINS[i], synth.GAINS[7 - i]) for i in range(8)]      # every gain of the IMRO set on some channel
        nc = k + 1
        raw = np.stack([np.roll(allv, 7919 * c) for c in range(nc)], axis=1).astype(np.int16)
        fbin = synth.write_recording(d, "val_g0_t0.imec0.%s" % stream, raw,
                                     synth.meta_items(kind, sites, 65536, stream=stream, gains=gains, vrange=vr, maxint=mi))
        s2v = synth.ref_s2v(kind, stream, k, 1, gains=gains, vrange=vr, maxint=mi)
        order = synth.ref_sort_order(sites) + [k]
    if suffix == ".cbin":
        sr0 = spikeglx.Reader(fbin)
        sr0.compress_file(keep_original=False, n_threads=1, quiet=True, check_after_compress=False, chunk_duration=10000 / sr0.fs)
        sr0.close()
        fbin = fbin.replace(".bin", ".cbin")
    sr = spikeglx.Reader(fbin)
    try:
        got = sr[:, :]
        full = refmodel.calibrated(raw, s2v)[:, order]
        if got.dtype != np.float32 or not refmodel.calib_close(got, full):
            bad = np.argwhere(~(np.abs(got.astype(np.float64) - full) <= np.abs(full) * 1.5 * refmodel.ULP32 + 1e-300)) if got.shape == full.shape else []
            v.append(("values:all-int16", "%s %s %s: %d of %d values are not float32(raw) x volts-per-bit (first at %r)"
                      % (kind, stream, suffix, len(bad), full.size, bad[0].tolist() if len(bad) else None)))
        if not np.array_equal(got[:, -1], raw[:, -1].astype(np.float32)):
            v.append(("values:sync-scaled", "sync column is not left unscaled"))
        s2 = np.asarray(sr.sample2volts, dtype=float)
        # the statement does not fix the order of this public vector: on-disk order (as now) or the reader's column order are both accepted
        if s2.shape[0] != nc or not (np.allclose(s2, np.array(s2v), rtol=1e-6, atol=0) or np.allclose(s2, np.array(s2v)[np.asarray(order)], rtol=1e-6, atol=0)):
            v.append(("sample2volts", "sample2volts %r != range/maxint/gain %r (in on-disk or in reader order)" % (s2.tolist(), s2v)))
    finally:
        sr.close()
    return Res(v, o=case[0], tr=1)


CHECK = {
    "property": "C01",
    "rule": "one case per (configuration, sample selector); inside it every channel selector; non-trivial = the configuration's channel "
            "permutation is not the identity",
    "assumptions": [
        "the gather does no arithmetic between cells and does not branch on values (read from the code): one separating content "
        "(every cell a distinct int16, seeded) decides the layout; the value domain is covered separately by running all 65536 values through every gain class",
        "calibration is compared within 1.5 float32 ulp of the exact product (any correctly rounded evaluation passes; a wrong gain is off by >= 20 %)",
        "index arrays on both axes at once are excluded (NumPy pairs them, the reader takes the outer product; the property does not say which); "
        "lists of sample indices only on uncompressed files",
        "recording: 4 samples x (4 sites + sync), compression chunk 3 samples",
    ],
    "clauses": [
        Clause("selectors", "selector pairs on every configuration (thorough: the full product everywhere; quick: full x core and core x full "
               "on the primary configurations, core x core on the others)", cases=sel_cases, check=sel_check, setup=_setup),
        Clause("geometry", "column i is geometry entry i; order by shank,row,-col", cases=geom_cases, check=geom_check),
        Clause("kept-results", "arrays returned by earlier reads stay valid after later reads", cases=hist_cases, check=hist_check),
        Clause("folder-neighbours", "UUID dataset names next to a UUID-less metadata file of another acquisition; data file symlinked into a folder holding another acquisition's metadata; "
               "band names and dots in the folder name: gains and geometry come from the recording's own metadata", cases=folder_cases, check=folder_check),
        Clause("values", "all 65536 int16 values x every gain class x bin/cbin", cases=value_cases, check=value_check),
        Clause("long-reads", "a recording longer than every block size mined from the reader's source: strided / reversed slices, integers at each threshold", cases=long_cases, check=long_check),
    ],
}
