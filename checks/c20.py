"""
C20 - denoising, smoothing and counting utilities conserve what they must.  Engine E1.
"""
import contextlib
import io
import itertools

import numpy as np

from mc.engine import Clause, Res
from mc import layouts as _layouts

from ibldsp import cadzow, voltage, smooth, spiketrains

SEED = [0]


def _setup(tier, seed):
    SEED[0] = seed


def _rng(*k):
    return np.random.default_rng([SEED[0] + 23] + [int(x) for x in k])


# ------------------------------------------------------------------ rank reduction
def rank_cases(tier, seed):
    rows = range(4, 41) if tier == "thorough" else list(range(4, 25)) + [32, 40]
    return [(ncol, nrow) for ncol in (1, 2, 3, 4) for nrow in rows]


def _grid(ncol, nrow):
    xs, ys = np.meshgrid(np.arange(ncol) * 16.0, np.arange(nrow) * 20.0, indexing="ij")
    return xs.ravel(), ys.ravel()


def rank_check(case):
    ncol, nrow = case
    x, y = _grid(ncol, nrow)
    nc = x.size
    rng = _rng(1, ncol, nrow)
    v = []
    nf = 3
    WAV = rng.standard_normal((nc, nf)) + 1j * rng.standard_normal((nc, nf))
    T, it, itr, trcount = cadzow.trajectory(x, y)
    full = min(T.shape)
    out = cadzow.denoise(WAV.copy(), x, y, r=full)
    ntr = 1
    scale = np.max(np.abs(WAV))
    if out.shape != WAV.shape or np.max(np.abs(out - WAV)) > 1e-9 * scale:
        v.append(("cadzow:full-rank", "%dx%d layout, rank %d (full): output differs from the input by %.3g"
                  % (ncol, nrow, full, float(np.max(np.abs(out - WAV))) if out.shape == WAV.shape else -1)))
    # several passes (niter > 1) at sufficient rank still return the input
    for niter in (2, 3):
        out = cadzow.denoise(WAV.copy(), x, y, r=full, niter=niter)
        ntr += 1
        if out.shape != WAV.shape or np.max(np.abs(out - WAV)) > 1e-9 * scale:
            v.append(("cadzow:full-rank:niter", "%dx%d layout, rank %d (full), niter=%d: output differs from the input by %.3g"
                      % (ncol, nrow, full, niter, float(np.max(np.abs(out - WAV))) if out.shape == WAV.shape else -1)))
            break
    PW0 = np.exp(-1j * 2 * np.pi * (0.011 * x + 0.031 * y))[:, None] * np.array([1.0, 0.5 + 0.2j, -2.0])[None, :]
    out = cadzow.denoise(PW0.copy(), x, y, r=1, niter=2)
    ntr += 1
    if np.max(np.abs(out - PW0)) > 1e-9 * 2:
        v.append(("cadzow:plane-wave:niter", "%dx%d layout: a single plane wave at rank 1 with niter=2 is changed by %.3g" % (ncol, nrow, float(np.max(np.abs(out - PW0))))))
    # a single plane wave has rank one
    waves = list(itertools.product((0.0, 0.011, 0.05), (0.0, 0.007, 0.031, -0.02)))
    if nc > 48:
        waves = [(0.0, 0.0), (0.011, 0.031), (0.05, -0.02)]
    for kx, ky in waves:
        amp = np.array([1.0, 0.5 + 0.2j, -2.0])
        PW = np.exp(-1j * 2 * np.pi * (kx * x + ky * y))[:, None] * amp[None, :]
        out = cadzow.denoise(PW.copy(), x, y, r=1)
        ntr += 1
        if np.max(np.abs(out - PW)) > 1e-9 * 2:
            v.append(("cadzow:plane-wave", "%dx%d layout: a single plane wave (k=%r,%r) at rank 1 is changed by %.3g" % (ncol, nrow, kx, ky, float(np.max(np.abs(out - PW))))))
            break
    # the same sites listed in another channel order (by rows instead of by columns, reversed, shuffled), in the same process
    for oname, perm in (("by rows", np.arange(nc).reshape(ncol, nrow).T.ravel()), ("reversed", np.arange(nc)[::-1]), ("shuffled", _rng(3, nc).permutation(nc))):
        xp, yp = x[perm], y[perm]
        kx, ky = 0.011, 0.031
        PW = np.exp(-1j * 2 * np.pi * (kx * xp + ky * yp))[:, None] * np.array([1.0, 0.5 + 0.2j, -2.0])[None, :]
        out = cadzow.denoise(PW.copy(), xp, yp, r=1)
        ntr += 1
        if np.max(np.abs(out - PW)) > 1e-9 * 2:
            v.append(("cadzow:plane-wave:channel-order", "%dx%d layout with the channels listed %s (after the same layout listed by columns): a single plane wave at rank 1 is changed by %.3g"
                      % (ncol, nrow, oname, float(np.max(np.abs(out - PW))))))
            break
    # rank reduction attenuates added noise (fixed seeded content)
    if full >= 4:
        PW = np.exp(-1j * 2 * np.pi * (0.011 * x + 0.013 * y))[:, None] * np.ones((1, 8))
        noise = 0.3 * (rng.standard_normal(PW.shape) + 1j * rng.standard_normal(PW.shape))
        out = cadzow.denoise((PW + noise).copy(), x, y, r=1)
        ntr += 1
        e0 = np.sqrt(np.mean(np.abs(noise) ** 2))
        e1 = np.sqrt(np.mean(np.abs(out - PW) ** 2))
        if not e1 < e0:
            v.append(("cadzow:reduces-noise", "%dx%d layout: error after rank-1 denoising %.3g is not below the added noise %.3g" % (ncol, nrow, e1, e0)))
    # plain SVD denoising in time domain
    D = rng.standard_normal((nc, 50))
    out = voltage.svd_denoise_npx(D.copy(), rank=nc)
    ntr += 1
    if out.shape != D.shape or np.max(np.abs(out - D)) > 1e-9 * np.max(np.abs(D)):
        v.append(("svd:full-rank", "svd_denoise_npx at rank nc=%d changes the data by %.3g" % (nc, float(np.max(np.abs(out - D))))))
    if ncol > 1:
        coll = np.repeat(np.arange(ncol), nrow)
        perm = _rng(2, nc).permutation(nc)
        out = voltage.svd_denoise_npx(D[perm].copy(), rank=nc, collection=coll[perm])
        ntr += 1
        if np.max(np.abs(out - D[perm])) > 1e-9 * np.max(np.abs(D)):
            v.append(("svd:full-rank:collection", "svd_denoise_npx with collections at full rank changes the data"))
    one = np.outer(rng.standard_normal(nc), rng.standard_normal(50))
    out = voltage.svd_denoise_npx(one.copy(), rank=1)
    ntr += 1
    if np.max(np.abs(out - one)) > 1e-9 * np.max(np.abs(one)):
        v.append(("svd:rank-one", "rank-1 data is changed by svd_denoise_npx(rank=1)"))
    noisy = one + 0.2 * rng.standard_normal(one.shape)
    out = voltage.svd_denoise_npx(noisy.copy(), rank=1)
    if not np.sqrt(np.mean((out - one) ** 2)) < np.sqrt(np.mean((noisy - one) ** 2)):
        v.append(("svd:reduces-noise", "rank-1 SVD denoising does not reduce added noise (nc=%d)" % nc))
    return Res(v, o=(ncol,), tr=ntr)


# ------------------------------------------------------------------ full rank shared between collections of unequal sizes
def svdcoll_cases(tier, seed):
    ncs = list(range(2, 49)) + ([64, 96, 97, 192, 384, 385] if tier == "thorough" else [96, 385])
    return [(nc,) for nc in ncs]


def svdcoll_check(case):
    nc, = case
    rng = _rng(9, nc)
    nt = nc + 3
    D = rng.standard_normal((nc, nt))
    scale = float(np.max(np.abs(D)))
    v, ntr, splits = [], 0, set()
    ks = range(1, nc) if nc <= 48 else sorted(set(list(range(1, 24)) + list(range(nc // 2 - 3, nc // 2 + 4)) + list(range(nc - 23, nc))))
    for k in ks:
        # two collections of k and nc - k channels, contiguous and interleaved; three collections for the small probes
        layouts = [("contiguous", np.r_[np.zeros(k, int), np.ones(nc - k, int)])]
        il = np.ones(nc, int)
        il[np.round(np.linspace(0, nc - 1, k)).astype(int)] = 0
        if np.sum(il == 0) == k:
            layouts.append(("interleaved", il))
        if nc <= 24 and k >= 2:
            for j in range(1, k):
                layouts.append(("three", np.r_[np.zeros(j, int), np.full(k - j, 5), np.full(nc - k, 2)]))
        for lname, coll in layouts:
            for rank in (nc, nc + 3):
                out = voltage.svd_denoise_npx(D.copy(), rank=rank, collection=coll.copy())
                ntr += 1
                splits.add(tuple(np.bincount(coll)[np.unique(coll)]))
                if out.shape != D.shape or not np.max(np.abs(out - D)) <= 1e-9 * scale:
                    v.append(("svd:full-rank:unequal-collections", "svd_denoise_npx(rank=%d) on %d channels in collections of sizes %r (%s) changes the data by %.3g of its scale: "
                              "a collection gets fewer components than it has channels" % (rank, nc, [int(n) for n in np.bincount(coll)[np.unique(coll)]], lname,
                                                                                          float(np.max(np.abs(out - D))) / scale if out.shape == D.shape else -1)))
                    return Res(v, o=(nc <= 48,), tr=ntr)
    return Res(v, o=(nc <= 48, len(splits) > 3), tr=ntr)


# ------------------------------------------------------------------ smoothers on constants
def const_cases(tier, seed):
    N = 200 if tier == "quick" else 400
    return [(n,) for n in range(1, N + 1)]


def const_check(case):
    n = case[0]
    v = []
    seen = {}
    ntr = 0
    for c in (0.0, 3.25, -1e-3, 70000.0):
        x = np.full(n, c)
        for fac, pad in (([0.1, 0.15], 0.2), ([0.3, 0.6], 0.2), ([0.02, 0.04], 1.0), ([0.1, 0.2], 0.05), ([0.1, 0.2], 0.0)):
            if n < 2:
                continue
            try:
                out = smooth.lp(x.copy(), fac, pad=pad)
                ntr += 1
            except Exception as e:
                seen.setdefault("lp:exc" + (":pad0" if pad == 0 else ""), "smooth.lp(n=%d, pad=%r) raised %s: %s" % (n, pad, type(e).__name__, e))
                continue
            tag = ":pad0" if pad == 0 else ""
            if out.shape != x.shape:
                seen.setdefault("lp:length" + tag, "smooth.lp on %d samples (pad=%r) returns %d samples" % (n, pad, out.shape[0]))
            elif np.max(np.abs(out - c)) > 1e-9 * max(1.0, abs(c)):
                seen.setdefault("lp:constant" + tag, "smooth.lp changes the constant %r (n=%d, pad=%r) by %.3g" % (c, n, pad, float(np.max(np.abs(out - c)))))
        for window in ("flat", "hanning", "hamming", "bartlett", "blackman"):
            for wl in range(3, 32, 2):
                if wl > n:
                    break
                out = smooth.rolling_window(x.copy(), window_len=wl, window=window)
                ntr += 1
                if out.shape != x.shape:
                    seen.setdefault("rolling:length", "rolling_window(%s, %d) on %d samples returns %d" % (window, wl, n, out.shape[0]))
                elif np.max(np.abs(out - c)) > 1e-9 * max(1.0, abs(c)):
                    seen.setdefault("rolling:constant", "rolling_window(%s, %d) changes the constant %r" % (window, wl, c))
    return Res(list(seen.items()), o=(n < 31,), tr=ntr)


# ------------------------------------------------------------------ non uniform savitzky golay
def savgol_cases(tier, seed):
    out = []
    for window in (5, 7, 9, 11):
        for order in range(0, min(window, 6 if tier == "quick" else 8)):
            out.append((window, order))
    return out


def savgol_check(case):
    window, order = case
    v = []
    seen = {}
    ntr = 0
    for rep in range(4):
        rng = _rng(3, window, order, rep)
        n = 40 + 7 * rep
        xs = np.cumsum(0.2 + rng.random(n) * 1.8)            # irregular abscissae, spacing in [0.2, 2]
        xs = xs - xs[n // 2]
        for deg in range(0, order + 1):
            coef = rng.standard_normal(deg + 1)
            y = np.polyval(coef, xs / 10.0)
            out = smooth.non_uniform_savgol(xs, y, window, order)
            ntr += 1
            scale = np.max(np.abs(y)) + 1.0
            err = np.max(np.abs(out - y)) / scale if out.shape == y.shape else np.inf
            if not err < 1e-6:
                where = "border" if (out.shape == y.shape and np.argmax(np.abs(out - y)) in list(range(window // 2)) + list(range(n - window // 2, n))) else "interior"
                seen.setdefault("savgol:polynomial:%s" % where, "window %d order %d: a degree-%d polynomial on irregular abscissae is reproduced with relative error %.3g"
                                % (window, order, deg, err))
    return Res(list(seen.items()), o=case, tr=ntr)


def lattice_cases(tier, seed):
    return [(window, order, rep) for window in (5, 7, 11) for order in (1, 2, 3) for rep in range(6)]


def lattice_check(case):
    window, order, rep = case
    rng = _rng(7, window, order, rep)
    seen = {}
    ntr = 0
    # integer time stamps with missing samples: consecutive windows can share their end offsets while differing inside
    n = 70
    keep = np.ones(n, dtype=bool)
    holes = rng.choice(np.arange(3, n - 3), size=12 + 3 * rep, replace=False)
    keep[holes] = False
    if rep == 0:
        keep[:] = True
        keep[[10, 12, 14, 16, 21, 23, 30, 31, 40, 42]] = False
    xs = np.arange(n)[keep].astype(float)
    for deg in range(0, order + 1):
        coef = rng.standard_normal(deg + 1)
        y = np.polyval(coef, (xs - 35) / 10.0)
        out = smooth.non_uniform_savgol(xs, y, window, order)
        ntr += 1
        err = np.max(np.abs(out - y)) / (np.max(np.abs(y)) + 1.0)
        if not err < 1e-6:
            seen.setdefault("savgol:polynomial:lattice", "window %d order %d: a degree-%d polynomial sampled at integer time stamps with gaps is reproduced with relative error %.3g"
                            % (window, order, deg, err))
    # through the NaN-filling wrapper: a cubic with NaN gaps comes back as the cubic
    t = np.arange(n).astype(float)
    cub = np.polyval([0.3, -1.0, 0.5, 2.0], (t - 35) / 20.0)
    sig = cub.copy()
    sig[~keep] = np.nan
    out = smooth.smooth_interpolate_savgol(sig.copy(), window=window if window >= 5 else 5, order=min(order, 3), interp_kind="cubic")
    ntr += 1
    if order >= 3 and (not np.all(np.isfinite(out)) or np.max(np.abs(out[keep] - cub[keep])) > 1e-6):
        seen.setdefault("savgol:nan-wrapper:polynomial", "window %d order %d: a cubic with NaN gaps is not reproduced at the valid samples (max error %.3g)"
                        % (window, order, float(np.max(np.abs(out[keep] - cub[keep])))))
    return Res(list(seen.items()), o=(window, order), tr=ntr)


def nan_cases(tier, seed):
    n = 40
    pats = [()] + [(i,) for i in range(n)] + list(itertools.combinations(range(n), 2))
    if tier == "thorough":
        pats += list(itertools.combinations(range(n), 3))
    else:
        pats += [(i, i + 1, i + 2) for i in range(n - 2)] + [(0, 20, 39), (0, 1, 39), (5, 6, 30)]
    return [list(p) for p in pats]


def nan_check(pat):
    n = 40
    t = np.arange(n)
    sig = np.sin(t / 5.0) + 0.1 * np.cos(t * 1.3)
    sig[list(pat)] = np.nan
    out = smooth.smooth_interpolate_savgol(sig.copy())
    v = []
    if out.shape != sig.shape or not np.all(np.isfinite(out)):
        v.append(("savgol:nan-fill", "NaNs at %r: output has %d non-finite values / shape %r" % (pat, int(np.sum(~np.isfinite(out))), out.shape)))
    return Res(v, o=(len(pat),), nt=len(pat) > 0, tr=1)


# ------------------------------------------------------------------ venn counting
BINS = 12     # samples per time bin (0.4 ms at 30 kHz)
CHB = 4


def _lattice():
    # 3 time bins x 2 channel bins, one position per bin, plus a second position inside the first bin
    pts = [(tb * BINS + (tb * 5) % BINS, cb * CHB + cb) for tb in range(3) for cb in range(2)]
    pts.append((BINS - 1, CHB - 1))
    return sorted(pts)


def _trains(maxsp):
    pts = _lattice()
    tr = []
    for k in range(1, maxsp + 1):
        tr += list(itertools.combinations_with_replacement(range(len(pts)), k))
    return tr


def venn_cases(tier, seed):
    out = []
    for nsort in (2, 3):
        maxsp = 3 if (nsort == 2 or tier == "thorough") else 2
        for i in range(len(_trains(maxsp))):
            out.append((nsort, maxsp, i))
    return out


def _venn(samples, channels, chunk):
    fn = spiketrains.spikes_venn2 if len(samples) == 2 else spiketrains.spikes_venn3
    with contextlib.redirect_stdout(io.StringIO()), contextlib.redirect_stderr(io.StringIO()):
        return fn(tuple(samples), tuple(channels), samples_binsize=BINS, channels_binsize=CHB, fs=30000, num_channels=8, chunk_size=chunk)


def venn_check(case):
    nsort, maxsp, first = case
    pts = _lattice()
    seen = {}
    ntr = 0
    trains = _trains(maxsp)
    chunks_mult = [BINS, 2 * BINS, 3 * BINS, 100 * BINS]
    chunks_non = [BINS + 5, 2 * BINS - 1, 30]
    for rest in itertools.product(trains, repeat=nsort - 1):
        combo = (trains[first],) + rest
        samples, channels = [], []
        for tr in combo:
            p = sorted(pts[i] for i in tr)
            samples.append(np.array([a for a, _ in p]))
            channels.append(np.array([b for _, b in p]))
        ref = None
        for chunk in chunks_mult + chunks_non:
            try:
                res = _venn(samples, channels, chunk)
                ntr += 1
            except Exception as e:
                seen.setdefault("venn:exc", "spikes %r chunk %d raised %s: %s" % ([s.tolist() for s in samples], chunk, type(e).__name__, e))
                continue
            # conservation: for each sorter the regions containing it sum to its number of spikes
            for s in range(nsort):
                tot = sum(int(c) for name, c in res.items() if name[s] == "1")
                if tot != len(samples[s]):
                    tag = "" if chunk in chunks_mult else ":chunk-not-multiple-of-bin"
                    seen.setdefault("venn:conservation" + tag, "sorter %d has %d spikes, regions containing it sum to %d (samples %r channels %r chunk %d)"
                                    % (s, len(samples[s]), tot, [x.tolist() for x in samples], [x.tolist() for x in channels], chunk))
            if chunk in chunks_mult:
                if ref is None:
                    ref = res
                elif {k: int(x) for k, x in res.items()} != {k: int(x) for k, x in ref.items()}:
                    seen.setdefault("venn:chunking", "counts depend on the chunk size: %r (chunk %d) vs %r (chunk %d); samples %r channels %r"
                                    % (dict(res), chunk, dict(ref), chunks_mult[0], [x.tolist() for x in samples], [x.tolist() for x in channels]))
    return Res(list(seen.items()), o=(nsort,), tr=ntr)


# ------------------------------------------------------------------ spikes late in a very long recording (sample indices beyond 2**31)
def venn_late_cases(tier, seed):
    return [(nsort, base, dt) for nsort in (2, 3) for base in (0, 2 ** 31 - 600, 2 ** 31 + 12 * 5, 2 ** 32 + 12 * 7) for dt in ("int64", "uint64", "float64")]


def venn_late_check(case):
    """counts do not depend on where in the recording the spikes sit: the same trains shifted by a whole number of chunks give the same regions"""
    nsort, base, dt = case
    rng = _rng(7, nsort)
    binsz = 30000                      # 1 s bins, chunks of 4096 bins: a 40 h recording is 36 chunks
    chunk = binsz * 4096
    v = []
    samples, channels = [], []
    common = np.sort(rng.choice(40, size=14, replace=False))
    for k in range(nsort):
        own = np.sort(rng.choice(np.arange(40, 80), size=6 + k, replace=False))
        ss = np.sort(np.r_[common[k::2], own]).astype(np.int64) * binsz + 11 * (k + 1)
        samples.append(ss)
        channels.append(((ss // binsz * 7 + k) % 8).astype(np.int64))
    fn = spiketrains.spikes_venn2 if nsort == 2 else spiketrains.spikes_venn3

    def run(smp):
        with contextlib.redirect_stdout(io.StringIO()), contextlib.redirect_stderr(io.StringIO()):
            return fn(tuple(smp), tuple(channels), samples_binsize=binsz, channels_binsize=CHB, fs=30000, num_channels=8, chunk_size=chunk)
    ref = run(samples)
    shift = int(round(base / chunk)) * chunk          # a whole number of chunks: 0, ~2**31, ~2**32
    try:
        res = run([(s_ + shift).astype(dt) for s_ in samples])
    except Exception as e:
        return Res([("venn:late-spikes:exc", "%d sorters, spikes around sample %d (%s): %s: %s" % (nsort, shift, dt, type(e).__name__, e))])
    for k in range(nsort):
        tot = sum(int(c) for name, c in res.items() if name[k] == "1")
        if tot != len(samples[k]):
            v.append(("venn:conservation:late-spikes", "sorter %d has %d spikes around sample %d (%s), the regions containing it sum to %d" % (k, len(samples[k]), shift, dt, tot)))
    if {a: int(b) for a, b in res.items()} != {a: int(b) for a, b in ref.items()}:
        v.append(("venn:late-spikes", "the same trains shifted by %d samples (a whole number of chunks, %s) give %r instead of %r" % (shift, dt, dict(res), dict(ref))))
    return Res(v, o=(nsort, base > 0), tr=2)


# ------------------------------------------------------------------ many spikes of one sorter in one bin (counts beyond 255 / 65535 per cell)
def venn_dense_cases(tier, seed):
    counts = (255, 256, 257, 300, 700) if tier == "quick" else (255, 256, 257, 300, 700, 65535, 65537, 70000)
    return [(nsort, n) for nsort in (2, 3) for n in counts]


def venn_dense_check(case):
    """coarse bins or a bursting unit: one (time, channel) cell holds n spikes of one sorter and a handful of the others - every spike still in exactly one region"""
    nsort, n = case
    binsz = 3000
    samples = [np.sort(np.r_[np.full(n, 5 * binsz + 7), np.arange(4) * binsz * 3 + 11]).astype(np.int64)]
    channels = [np.r_[np.full(n, 2), np.arange(4) % 8].astype(np.int64)[np.argsort(np.r_[np.full(n, 5 * binsz + 7), np.arange(4) * binsz * 3 + 11], kind="stable")]]
    for k in range(1, nsort):
        ss = np.sort(np.r_[np.full(3 + k, 5 * binsz + 9), np.arange(5) * binsz * 2 + 13 + k]).astype(np.int64)
        samples.append(ss)
        channels.append(np.where(ss // binsz == 5, 2, (ss // binsz) % 8).astype(np.int64))
    fn = spiketrains.spikes_venn2 if nsort == 2 else spiketrains.spikes_venn3
    v = []
    try:
        with contextlib.redirect_stdout(io.StringIO()), contextlib.redirect_stderr(io.StringIO()):
            res = fn(tuple(samples), tuple(channels), samples_binsize=binsz, channels_binsize=CHB, fs=30000, num_channels=8, chunk_size=binsz * 64)
    except Exception as e:
        return Res([("venn:dense:exc", "%d sorters, %d spikes of sorter 0 in one bin: %s: %s" % (nsort, n, type(e).__name__, e))])
    for k in range(nsort):
        tot = sum(int(c) for name, c in res.items() if name[k] == "1")
        if tot != len(samples[k]):
            v.append(("venn:conservation:dense-bin", "sorter %d has %d spikes (%d of sorter 0 in one time x channel bin), the regions containing it sum to %d" % (k, len(samples[k]), n, tot)))
    return Res(v, o=(nsort, n > 255, n > 65535), tr=1)


# ------------------------------------------------------------------ stack
def stack_cases(tier, seed):
    L = 5 if tier == "quick" else 6
    out = [list(w) for w in itertools.product((0, 1, 2), repeat=L)]
    # as many label values as traces (every trace its own label, in any order, is one of them), labels that are not 0..k-1
    for n in range(1, 5 if tier == "quick" else 6):
        out += [list(w) for w in itertools.product((7, -2, 30, 4, 11)[:n], repeat=n)]
    return out


def stack_check(word):
    word = np.array(word)
    n = word.size
    rng = _rng(5, n)
    data = rng.standard_normal((n, 4))
    data[0, 1] = np.nan
    v = []
    groups = sorted(set(word.tolist()))
    for name, fcn, ref in (("nanmean", np.nanmean, np.nanmean), ("sum", np.sum, np.sum), ("median", np.median, np.median)):
        st, fold = voltage.stack(data.copy(), word, fcn_agg=fcn)
        exp = np.stack([ref(data[word == g], axis=0) for g in groups])
        expfold = np.array([int(np.sum(word == g)) for g in groups])
        if st.shape != exp.shape or not np.allclose(st, exp, rtol=1e-12, atol=0, equal_nan=True):
            v.append(("stack:%s" % name, "stack(%s) of labels %r differs from the per-label aggregate" % (name, word.tolist())))
        if not np.array_equal(np.asarray(fold), expfold):
            v.append(("stack:fold", "fold %r != label counts %r for labels %r" % (np.asarray(fold).tolist(), expfold.tolist(), word.tolist())))
    hdr = {"offset": np.arange(n) * 1.0}
    st, hs = voltage.stack(np.nan_to_num(data), word, fcn_agg=np.mean, header=hdr)
    expoff = np.array([np.mean(np.arange(n)[word == g]) for g in groups])
    if not np.allclose(hs["offset"], expoff) or not np.array_equal(hs["fold"], [int(np.sum(word == g)) for g in groups]):
        v.append(("stack:header", "aggregated header wrong for labels %r" % (word.tolist(),)))
    return Res(v, o=(len(groups),), nt=len(groups) > 1, tr=4)


CHECK = {
    "property": "C20",
    "rule": "layouts: every (columns 1-4, rows) rectangular layout; smoothers: every length; venn: every multiset of <= 3 (2 sorters) / <= 2 (3 sorters) spikes per sorter over a "
            "3x2 bin lattice plus a second position in one bin, x 7 chunk sizes; stack: every label vector; non-trivial = all but degenerate ones",
    "assumptions": [
        "'reduces noise otherwise' is decided on fixed seeded content (plane wave / rank-one matrix + noise), VERIF_SEED rotates it",
        "Venn counts are required to be identical across chunk sizes that are multiples of the time bin; conservation is required for every chunk size",
        "savgol polynomial reproduction: relative tolerance 1e-6 on seeded irregular abscissae with spacing in [0.2, 2]",
    ],
    "clauses": [
        Clause("rank", "cadzow / SVD denoising at sufficient rank on every layout", cases=rank_cases, check=rank_check, setup=_setup),
        Clause("svd-collections", "svd_denoise_npx at full rank with every split of the channels into collections of unequal sizes (contiguous, interleaved, three-way): input returned unchanged",
               cases=svdcoll_cases, check=svdcoll_check, setup=_setup),
        Clause("constants", "lp and rolling_window on constants of every length", cases=const_cases, check=const_check, setup=_setup),
        Clause("savgol", "non_uniform_savgol reproduces polynomials up to its order", cases=savgol_cases, check=savgol_check, setup=_setup),
        Clause("savgol-lattice", "polynomials on integer time stamps with gaps (as produced by NaN removal)", cases=lattice_cases, check=lattice_check, setup=_setup),
        Clause("nan-fill", "smooth_interpolate_savgol fills every NaN pattern", cases=nan_cases, check=nan_check),
        Clause("venn", "spike coincidence counting conserves spikes for every small train and chunking", cases=venn_cases, check=venn_check),
        Clause("venn-late", "spike trains with sample indices around and beyond 2**31 / 2**32 (int64, uint64, float64): every spike in exactly one region", cases=venn_late_cases, check=venn_late_check, setup=_setup),
        Clause("venn-dense", "255 / 256 / 257 / 300 / 700 (thorough: up to 70000) spikes of one sorter in a single time x channel bin: every spike in exactly one region",
               cases=venn_dense_cases, check=venn_dense_check),
        Clause("stack", "stack by label for every label vector", cases=stack_cases, check=stack_check, setup=_setup),
        _layouts.make_clause(__import__("checks._layout_specs", fromlist=["x"]).c20()),
    ],
}
