"""
Call specifications for the `layouts` clauses (see mc/layouts.py): per property, the public functions the property is
about, each with one small deterministic input.  The clause enumerates every (call, array argument, memory layout /
dtype) and demands the result of the plain C-ordered call and untouched arguments.
"""
import numpy as np

import neuropixel
import spikeglx
from ibldsp import fourier, voltage, waveforms, utils, cadzow, smooth, spiketrains

F32, F64, I16, I32, I64, U16, U32, U64 = np.float32, np.float64, np.int16, np.int32, np.int64, np.uint16, np.uint32, np.uint64


def _rng(k):
    return np.random.default_rng(1000 + k)


def _smooth2d(nc, ns, k):
    r = _rng(k)
    t = np.arange(ns)
    x = np.cumsum(r.standard_normal((nc, ns)), axis=1) * 1e-6 + 20e-6 * np.sin(2 * np.pi * t / 37.0)[None, :]
    return x - x.mean(axis=1, keepdims=True)


def _h(nc=384, version=1):
    return neuropixel.trace_header(version=version)


# ---------------------------------------------------------------------------------------------------------- C07
def c07():
    w2 = lambda k: _rng(k).standard_normal((6, 41))            # noqa
    w2e = lambda k: _rng(k).standard_normal((5, 32))           # noqa
    spike = lambda k: np.exp(-0.5 * ((np.arange(82) - 40.3) / 4.0) ** 2) * np.sin((np.arange(82) - 40.3) / 5.0) * 8e-5   # noqa
    return [
        dict(key="fshift:scalar", make=lambda s: ([w2(1), 2.3], {}), fn=lambda w, s, **k: fourier.fshift(w, s, **k), args=(0,), dtypes={0: [F32]}, tol_dtype=2e-5),
        dict(key="fshift:even", make=lambda s: ([w2e(2), -1.7], {}), fn=lambda w, s, **k: fourier.fshift(w, s, **k), args=(0,), dtypes={0: [F32]}, tol_dtype=2e-5),
        dict(key="fshift:axis0", make=lambda s: ([w2(3), 0.4], dict(axis=0)), fn=lambda w, s, **k: fourier.fshift(w, s, **k), args=(0,), dtypes={0: [F32]}, tol_dtype=2e-5),
        dict(key="fshift:per-trace", make=lambda s: ([w2(4), np.array([0.5, -1.25, 3.0, 0.0, -7.5, 12.75])[:, None]], {}),
             fn=lambda w, s, **k: fourier.fshift(w, s, **k), args=(0, 1), dtypes={0: [F32], 1: [F32]}, tol_dtype=2e-5),
        dict(key="wave_shift_corrmax", make=lambda s: ([spike(0), fourier.fshift(spike(0), 1.37)], {}),
             fn=lambda a, b: waveforms.wave_shift_corrmax(a, b), args=(0, 1), dtypes={0: [F32], 1: [F32]}, tol=1e-9, tol_dtype=5e-3),
        dict(key="parabolic_max:1d", make=lambda s: ([np.array([0.1, 0.5, 2.0, 2.2, 0.3, -1.0])], {}), fn=lambda x: utils.parabolic_max(x), args=(0,),
             dtypes={0: [F32]}, tol_dtype=1e-5),
        dict(key="parabolic_max:2d", make=lambda s: ([np.array([[0.1, 0.5, 2.0, 2.2, 0.3, -1.0], [3.0, 1.0, 0.2, 0.1, 0.0, 2.9], [0.0, 0.0, 1e-9, 3e-9, 2e-9, 0.0]])], {}),
             fn=lambda x: utils.parabolic_max(x), args=(0,), dtypes={0: [F32]}, tol_dtype=1e-5),
    ]


# ---------------------------------------------------------------------------------------------------------- C18
def c18():
    x1 = lambda k, n=37: _rng(k).standard_normal(n)           # noqa
    x2 = lambda k: _rng(k).standard_normal((4, 37))           # noqa
    x3 = lambda k: _rng(k).standard_normal((3, 4, 20))        # noqa
    xi = lambda k: (_rng(k).integers(-3000, 3000, size=(3, 37))).astype(np.int64)   # noqa
    han = lambda n=8: np.hanning(n + 2)[1:-1] / np.hanning(n + 2)[1:-1].sum()       # noqa
    sp = lambda k: np.fft.fft(_rng(k).standard_normal((3, 16)), axis=-1)           # noqa
    out = [
        dict(key="convolve:full", make=lambda s: ([x2(1), han()], dict(mode="full")), fn=lambda x, w, **k: fourier.convolve(x, w, **k), args=(0, 1),
             dtypes={0: [F32], 1: [F32]}, tol_dtype=3e-6),
        dict(key="convolve:same", make=lambda s: ([x2(2), han(7)], dict(mode="same")), fn=lambda x, w, **k: fourier.convolve(x, w, **k), args=(0, 1),
             dtypes={0: [F32], 1: [F32]}, tol_dtype=3e-6),
        dict(key="convolve:1d", make=lambda s: ([x1(3), han(5)], dict(mode="same")), fn=lambda x, w, **k: fourier.convolve(x, w, **k), args=(0, 1),
             dtypes={0: [F32]}, tol_dtype=3e-6),
        # integer samples (raw counts) filtered with a real-valued kernel: same values as for the float copy of the samples
        dict(key="convolve:integer-signal", make=lambda s: ([xi(4).astype(float), han()], dict(mode="full")), fn=lambda x, w, **k: fourier.convolve(x, w, **k), args=(0,),
             dtypes={0: [I16, I32, I64]}, tol_dtype=1e-9, skip=tuple(["fortran", "strided", "negative-strides", "readonly", "offset-view"])),
        dict(key="convolve:integer-signal:same", make=lambda s: ([xi(5).astype(float), han(7)], dict(mode="same")), fn=lambda x, w, **k: fourier.convolve(x, w, **k), args=(0,),
             dtypes={0: [I16, I32, I64]}, tol_dtype=1e-9, skip=tuple(["fortran", "strided", "negative-strides", "readonly", "offset-view"])),
        dict(key="freduce", make=lambda s: ([sp(6)], {}), fn=lambda x, **k: fourier.freduce(x, **k), args=(0,)),
        dict(key="freduce:axis0", make=lambda s: ([np.fft.fft(x2(7), axis=0)], dict(axis=0)), fn=lambda x, **k: fourier.freduce(x, **k), args=(0,)),
        dict(key="fexpand", make=lambda s: ([np.fft.rfft(x2(8), axis=-1)], dict(ns=37)), fn=lambda x, **k: fourier.fexpand(x, **k), args=(0,)),
        dict(key="fexpand:axis0", make=lambda s: ([np.fft.rfft(x3(9), axis=0)], dict(ns=3, axis=0)), fn=lambda x, **k: fourier.fexpand(x, **k), args=(0,)),
        dict(key="dft", make=lambda s: ([x2(10)], {}), fn=lambda x, **k: fourier.dft(x, **k), args=(0,)),
        dict(key="dft:axis0", make=lambda s: ([x2(11)], dict(axis=0)), fn=lambda x, **k: fourier.dft(x, **k), args=(0,)),
        dict(key="fit_phase", make=lambda s: ([fourier.fshift(x2(12), 1.5)], dict(si=1 / 30000.)), fn=lambda x, **k: fourier.fit_phase(x, **k), args=(0,), tol=1e-8),
    ]
    for name, f, b in (("lp", fourier.lp, [0.1, 0.2]), ("hp", fourier.hp, [0.1, 0.2]), ("bp", fourier.bp, [0.05, 0.1, 0.2, 0.3])):
        out.append(dict(key=name, make=lambda s, b=b: ([x2(13), 1.0, b], {}), fn=lambda x, si, b, f=f, **k: f(x, si, b, **k), args=(0,), dtypes={0: [F32]}, tol_dtype=3e-6))
        out.append(dict(key=name + ":axis0", make=lambda s, b=b: ([x2(14), 1.0, b], dict(axis=0)), fn=lambda x, si, b, f=f, **k: f(x, si, b, **k), args=(0,)))
        out.append(dict(key=name + ":3d", make=lambda s, b=b: ([x3(15), 1.0, b], dict(axis=1)), fn=lambda x, si, b, f=f, **k: f(x, si, b, **k), args=(0,)))
    return out


# ---------------------------------------------------------------------------------------------------------- C16
def c16():
    def data(k, nc=10, ns=40):
        r = _rng(k)
        d = r.standard_normal((nc, ns)) * 1e-4
        d[: nc // 2 + 1, 7] = 1.3e-3
        d[:, 20] = -1.3e-3
        d[:3, 30] = 1.3e-3
        return d
    vmax = np.linspace(1.1e-3, 1.25e-3, 10)
    return [
        dict(key="saturation:scalar-range", make=lambda s: ([data(1), 1.2e-3], dict(v_per_sec=1e-8, fs=30000, proportion=0.2, mute_window_samples=7)),
             fn=lambda d, v, **k: voltage.saturation(d, v, **k), args=(0,), dtypes={0: [F32]}, tol_dtype=1e-6, dtype_same=True),
        dict(key="saturation:channel-range", make=lambda s: ([data(2), vmax.copy()], dict(v_per_sec=1e-8, fs=30000, proportion=0.3, mute_window_samples=5)),
             fn=lambda d, v, **k: voltage.saturation(d, v, **k), args=(0, 1), dtypes={1: [F32]}, tol_dtype=1e-6),
        dict(key="saturation:slew-only", make=lambda s: ([np.cumsum(data(3), axis=1), 10.0], dict(v_per_sec=1e-8, fs=30000, proportion=0.2, mute_window_samples=7)),
             fn=lambda d, v, **k: voltage.saturation(d, v, **k), args=(0,)),
    ]


# ---------------------------------------------------------------------------------------------------------- C10
def c10():
    words = lambda: ((np.arange(4096, dtype=np.int64) * 2749) % 65536).astype(np.uint16).view(np.int16)     # noqa
    train = lambda: np.array([0, 0, 1, 1, 1, 0, 1, 0, 0, 1, 1, 0], dtype=float)                             # noqa
    t2 = lambda: np.stack([train(), 1 - train(), np.roll(train(), 3)])                                     # noqa
    return [
        dict(key="split_sync", make=lambda s: ([words()], {}), fn=lambda w: spikeglx.split_sync(w), args=(0,), dtypes={0: [U16]}),
        dict(key="split_sync:2d-column", make=lambda s: ([words()[:, None]], {}), fn=lambda w: spikeglx.split_sync(w), args=(0,)),
        dict(key="fronts:1d", make=lambda s: ([train()], {}), fn=lambda x, **k: utils.fronts(x, **k), args=(0,), dtypes={0: [F32, np.int8, I32, I64]}, tol_dtype=0),
        dict(key="fronts:2d", make=lambda s: ([t2()], {}), fn=lambda x, **k: utils.fronts(x, **k), args=(0,), dtypes={0: [F32, np.int8, I64]}, tol_dtype=0),
        dict(key="fronts:axis0", make=lambda s: ([t2().T.copy()], dict(axis=0)), fn=lambda x, **k: utils.fronts(x, **k), args=(0,), dtypes={0: [np.int8]}, tol_dtype=0),
        dict(key="rises:axis0", make=lambda s: ([t2().T.copy()], dict(axis=0)), fn=lambda x, **k: utils.rises(x, **k), args=(0,), dtypes={0: [np.int8]}, tol_dtype=0),
        dict(key="falls:axis0", make=lambda s: ([t2().T.copy()], dict(axis=0)), fn=lambda x, **k: utils.falls(x, **k), args=(0,), dtypes={0: [np.int8]}, tol_dtype=0),
        dict(key="rises:analog", make=lambda s: ([train() * 3.3 + 0.1], dict(step=2.0, analog=True)), fn=lambda x, **k: utils.rises(x, **k), args=(0,), dtypes={0: [F32]}, tol_dtype=0),
    ]


# ---------------------------------------------------------------------------------------------------------- C14
def c14():
    def batch(k, nw=12, ns=60, nc=5):
        r = _rng(k)
        t = np.arange(ns)
        out = np.zeros((nw, ns, nc))
        for i in range(nw):
            pk = 15 + 3 * i
            pol = -1 if i % 3 else 1
            amp = 40 + 7 * i
            w = pol * amp * np.exp(-0.5 * ((t - pk) / 2.0) ** 2) - pol * 0.45 * amp * np.exp(-0.5 * ((t - pk - 7) / 4.0) ** 2)
            for c in range(nc):
                out[i, :, c] = w * (1.0 / (1 + abs(c - (i % nc))))
        out += r.integers(-2, 3, size=out.shape)
        return np.round(out)

    def nan_batch(k):
        b = batch(k)
        b[::2, :, -1] = np.nan
        b[1::3, :, 0] = np.nan
        return b

    def fn(a, **k):
        return waveforms.compute_spike_features(a, **k)
    return [
        # integer-valued batches: the features of the int16/int32/float32 presentation equal those of the float64 one
        dict(key="compute_spike_features", make=lambda s: ([batch(1)], dict(fs=30000, recovery_duration_ms=0.16, return_peak_channel=True)), fn=fn, args=(0,),
             dtypes={0: [F32, I16, I32, I64]}, tol_dtype=1e-6, tol=1e-12, skip=("readonly",)),
        dict(key="compute_spike_features:1-channel", make=lambda s: ([batch(2, nc=1)], dict(fs=30000, recovery_duration_ms=0.16, return_peak_channel=True)), fn=fn, args=(0,),
             dtypes={0: [F32, I16]}, tol_dtype=1e-6, tol=1e-12, skip=("readonly",)),
        # NaN-padded channels (waveforms at the probe ends, as the extractor delivers them - there as a swapped-axes view): the NaN are zeroed in the caller's array by design
        dict(key="compute_spike_features:nan-padded", make=lambda s: ([nan_batch(3)], dict(fs=30000, recovery_duration_ms=0.16, return_peak_channel=True)), fn=fn, args=(0,),
             inplace=(0,), dtypes={0: [F32]}, tol_dtype=1e-6, tol=1e-12, skip=("readonly",)),
    ]


# ---------------------------------------------------------------------------------------------------------- C05 / C15
def c05():
    h = _h()
    x = lambda k: _smooth2d(384, 300, k)       # noqa
    small = lambda k: _smooth2d(36, 200, k)    # noqa
    coll = np.repeat(np.arange(2), 18)
    return [
        dict(key="destripe", make=lambda s: ([x(1), 30000], dict(h=h, channel_labels=np.zeros(384, dtype=int))), fn=lambda a, fs, **k: voltage.destripe(a, fs, **k), args=(0,),
             dtypes={0: [F32]}, tol=1e-9, tol_dtype=2e-3, skip=("readonly",)),
        dict(key="destripe:car", make=lambda s: ([x(2), 30000], dict(h=h, channel_labels=np.zeros(384, dtype=int), k_filter=False)), fn=lambda a, fs, **k: voltage.destripe(a, fs, **k),
             args=(0,), dtypes={0: [F32]}, tol=1e-9, tol_dtype=2e-3, skip=("readonly",)),
        # raw integer counts (what a memory map of the file or a read without conversion gives): same result as the same values as float64
        dict(key="destripe:counts", make=lambda s: ([np.round(x(9) / np.max(np.abs(x(9))) * 3000.0), 30000], dict(h=h, channel_labels=np.zeros(384, dtype=int))),
             fn=lambda a, fs, **k: voltage.destripe(a, fs, **k), args=(0,), dtypes={0: [I16, I32]}, tol=1e-9, tol_dtype=1e-6, skip=("readonly", "fortran", "strided", "negative-strides", "offset-view")),
        dict(key="destripe:car:counts", make=lambda s: ([np.round(x(10) / np.max(np.abs(x(10))) * 3000.0), 30000], dict(h=h, channel_labels=np.zeros(384, dtype=int), k_filter=False)),
             fn=lambda a, fs, **k: voltage.destripe(a, fs, **k), args=(0,), dtypes={0: [I16, I32]}, tol=1e-9, tol_dtype=1e-6, skip=("readonly", "fortran", "strided", "negative-strides", "offset-view")),
        dict(key="destripe_lfp", make=lambda s: ([x(3), 2500], dict(h=h, channel_labels=np.zeros(384, dtype=int))), fn=lambda a, fs, **k: voltage.destripe_lfp(a, fs, **k), args=(0,),
             tol=1e-9, skip=("readonly",)),
        dict(key="car:median", make=lambda s: ([small(4)], dict(collection=coll)), fn=lambda a, **k: voltage.car(a, **k), args=(0,), dtypes={0: [F32]}, tol_dtype=1e-5),
        dict(key="car:average", make=lambda s: ([small(5)], dict(operator="average")), fn=lambda a, **k: voltage.car(a, **k), args=(0,), dtypes={0: [F32]}, tol_dtype=1e-5),
        dict(key="kfilt", make=lambda s: ([small(6)], dict(collection=coll, lagc=None)), fn=lambda a, **k: voltage.kfilt(a, **k), args=(0,), tol=1e-9),
        dict(key="kfilt:agc", make=lambda s: ([small(7)], dict(lagc=100)), fn=lambda a, **k: voltage.kfilt(a, **k), args=(0,), tol=1e-9, inplace=(0,)),
        dict(key="agc", make=lambda s: ([small(8)], dict(wl=0.01, si=1 / 30000.)), fn=lambda a, **k: voltage.agc(a, **k), args=(0,), dtypes={0: [F32]}, tol_dtype=1e-4, tol=1e-10, inplace=(0,)),
    ]


def c15():
    h = _h()
    labels = np.zeros(384, dtype=int)
    labels[[10, 11, 200, 383]] = 1
    labels[50] = 2
    x = lambda k: _smooth2d(384, 120, k)       # noqa
    return [
        dict(key="interpolate_bad_channels", make=lambda s: ([x(1), labels.copy()], dict(x=h["x"], y=h["y"])),
             fn=lambda a, lab, **k: voltage.interpolate_bad_channels(a, lab, **k), args=(0, 1), inplace=(0,), dtypes={0: [F32], 1: [np.int8, I64, F64]}, tol_dtype=1e-5, tol=1e-12),
    ]


# ---------------------------------------------------------------------------------------------------------- C20
def c20():
    hh = _h()
    x = lambda k, nc=32, ns=64: _rng(k).standard_normal((nc, ns))        # noqa
    return [
        dict(key="svd_denoise_npx:full-rank", make=lambda s: ([x(1)], dict(rank=32)), fn=lambda a, **k: voltage.svd_denoise_npx(a, **k), args=(0,), dtypes={0: [F32]}, tol=1e-9, tol_dtype=1e-4),
        dict(key="svd_denoise_npx:rank3", make=lambda s: ([x(2)], dict(rank=3)), fn=lambda a, **k: voltage.svd_denoise_npx(a, **k), args=(0,), tol=1e-9),
        dict(key="svd_denoise_npx:collection", make=lambda s: ([x(3)], dict(rank=16, collection=np.repeat(np.arange(2), 16))), fn=lambda a, **k: voltage.svd_denoise_npx(a, **k),
             args=(0,), tol=1e-9),
        dict(key="cadzow.denoise", make=lambda s: ([np.fft.rfft(x(4, 16, 8), axis=-1), (np.arange(16) % 2) * 16.0, (np.arange(16) // 2) * 20.0], dict(r=2)),
             fn=lambda W, xx, yy, **k: cadzow.denoise(W, xx, yy, **k), args=(0, 1, 2), tol=1e-8),
        dict(key="smooth.lp", make=lambda s: ([np.cumsum(_rng(5).standard_normal(200))], dict(fac=[0.1, 0.2])), fn=lambda a, fac: smooth.lp(a, fac), args=(0,)),
        dict(key="smooth.rolling_window", make=lambda s: ([np.cumsum(_rng(6).standard_normal(100))], dict(window_len=11)), fn=lambda a, **k: smooth.rolling_window(a, **k), args=(0,),
             dtypes={0: [F32]}, tol_dtype=1e-5),
        dict(key="non_uniform_savgol", make=lambda s: ([np.sort(_rng(7).random(40)) * 10, _rng(8).standard_normal(40)], dict(window=7, polynom=3)),
             fn=lambda a, b, **k: smooth.non_uniform_savgol(a, b, **k), args=(0, 1), tol=1e-9),
        dict(key="smooth_interpolate_savgol", make=lambda s: ([np.where(np.arange(60) % 13 == 5, np.nan, np.sin(np.arange(60) / 6.0))], dict(window=11, order=3)),
             fn=lambda a, **k: smooth.smooth_interpolate_savgol(a, **k), args=(0,), tol=1e-9),
        dict(key="stack", make=lambda s: ([x(9, 12, 20), np.array([0, 1, 2, 0, 1, 2, 2, 2, 0, 1, 1, 0])], {}), fn=lambda a, w, **k: voltage.stack(a, w, **k), args=(0, 1),
             dtypes={1: [I16, U16, F64]}, tol_dtype=1e-12, tol=1e-12),
        dict(key="spikes_venn2", make=lambda s: ([np.array([100, 400, 4000, 9000, 12000]), np.array([1, 2, 3, 1, 2]), np.array([104, 2000, 4001, 12003]), np.array([1, 2, 3, 2])],
                                                 dict(samples_binsize=10, channels_binsize=4, fs=30000, num_channels=8, chunk_size=3000)),
             fn=lambda s1, c1, s2, c2, **k: spiketrains.spikes_venn2((s1, s2), (c1, c2), **k), args=(0, 1, 2, 3),
             dtypes={0: [I32, U64, U32], 2: [I32, U64], 1: [I16, U16]}, tol_dtype=0),
    ]


# ---------------------------------------------------------------------------------------------------------- C19
def c19():
    def trains(k):
        r = _rng(k)
        ta = np.cumsum(0.5 + 9.5 * r.random(60)) + 3.0
        tb = ta * (1 + 37.3e-6) + 77.7 + (r.random(60) - 0.5) * 1e-4
        return ta, np.delete(tb, [7, 31])

    def fn(a, b, **k):
        f, drift, ia, ib = utils.sync_timestamps(a, b, return_indices=True, **k)
        return f(np.linspace(a[0], a[-1], 25)), drift, ia, ib
    return [
        dict(key="sync_timestamps", make=lambda s: (list(trains(1)), {}), fn=fn, args=(0, 1), tol=1e-12),
        dict(key="sync_timestamps:linear", make=lambda s: (list(trains(2)), dict(linear=True)), fn=fn, args=(0, 1), tol=1e-12),
    ]
