"""
C18 - spectral helpers equal their textbook definitions for every length.  Engine E1.
"""
import numpy as np
import scipy.signal

from mc.engine import Clause, Res
from mc import layouts as _layouts

from ibldsp import fourier, utils

SEED = [0]


def _setup(tier, seed):
    SEED[0] = seed


def _rng(*k):
    return np.random.default_rng([SEED[0] + 17] + [int(x) for x in k])


# ---------------------------------------------------------------- convolution
def conv_cases(tier, seed):
    N = 300 if tier == "quick" else 420
    cases = [(nx, nw) for nx in range(1, N + 1) for nw in range(1, N + 1)]
    # padded sizes that are powers of three beyond the box (odd fft sizes)
    for tot in (649, 700, 729, 1945, 2187):
        for nx in (1, 2, tot // 3, tot // 2, tot - 2, tot - 1):
            if 1 <= nx < tot:
                cases.append((nx, tot - nx))
    return cases


def conv_check(case):
    nx, nw = case
    rng = _rng(1, nx, nw)
    v = []
    pad = int(fourier.ns_optim_fft(nx + nw))
    # the full impulse basis of the shorter argument against seeded content of the other (convolution is bilinear)
    if nx <= nw:
        x = np.eye(nx)
        w = rng.standard_normal(nw)
        ref_full = np.stack([np.convolve(x[i], w) for i in range(nx)]) if nx <= 4 else None
        if ref_full is None:
            # row i of the reference is w delayed by i
            ref_full = np.zeros((nx, nx + nw - 1))
            for i in range(nx):
                ref_full[i, i:i + nw] = w
        ref_same = np.stack([scipy.signal.convolve(x[i], w, mode="same") for i in range(nx)]) if nx <= 4 else None
    else:
        x = rng.standard_normal(nx)
        w = np.eye(nw)
        ref_full = np.zeros((nw, nx + nw - 1))
        for i in range(nw):
            ref_full[i, i:i + nx] = x
        ref_same = None
    if ref_same is None:
        first = (nw - 1) // 2          # scipy 'same': centred on the 'full' output, length of the first argument
        ref_same = ref_full[:, first:first + nx]
    tol = 1e-9 * max(1.0, float(np.max(np.abs(ref_full))))
    tag = ":odd-fft-size" if pad % 2 else ""
    for mode, ref in (("full", ref_full), ("same", ref_same)):
        try:
            out = fourier.convolve(x, w, mode=mode)
        except Exception as e:
            v.append(("convolve:%s:exc" % mode, "convolve raised %s: %s" % (type(e).__name__, e)))
            continue
        out = np.atleast_2d(out)
        if mode == "full":
            # the function returns nx+nw samples (pinned by the repository's test): the first nx+nw-1 are the
            # convolution, anything after must be zero
            good = out.shape[-1] >= nx + nw - 1 and out.shape[0] == ref.shape[0] and \
                np.allclose(out[:, :nx + nw - 1], ref, rtol=0, atol=tol) and \
                np.allclose(out[:, nx + nw - 1:], 0, rtol=0, atol=tol)
        else:
            good = out.shape == ref.shape and np.allclose(out, ref, rtol=0, atol=tol)
        if not good:
            m = min(out.shape[-1], ref.shape[-1])
            err = float(np.max(np.abs(out[:, :m] - ref[:, :m]))) if (out.shape[0] == ref.shape[0] and m) else -1.0
            v.append(("convolve:%s%s" % (mode, tag), "convolve(nx=%d, nw=%d, %s): shape %r vs %r, max err %.3g, fft size %d"
                      % (nx, nw, mode, out.shape, ref.shape, err, pad)))
    # 1-D x 1-D seeded content as well (no broadcasting)
    a = rng.standard_normal(nx)
    b = rng.standard_normal(nw)
    try:
        o1 = fourier.convolve(a, b, mode="full")
        r1 = np.convolve(a, b)
        if o1.ndim != 1 or o1.size < r1.size or not np.allclose(o1[:r1.size], r1, rtol=0, atol=1e-9 * (1 + np.max(np.abs(r1)))):
            v.append(("convolve:full1d%s" % tag, "1-D convolve(nx=%d, nw=%d) differs from numpy.convolve" % (nx, nw)))
        o2 = fourier.convolve(a, b, mode="same")
        r2 = scipy.signal.convolve(a, b, mode="same")
        if o2.shape != r2.shape or not np.allclose(o2, r2, rtol=0, atol=1e-9 * (1 + np.max(np.abs(r2)))):
            v.append(("convolve:same1d%s" % tag, "1-D convolve(nx=%d, nw=%d,'same') differs from scipy" % (nx, nw)))
    except Exception as e:
        v.append(("convolve:1d:exc", "convolve raised %s: %s" % (type(e).__name__, e)))
    return Res(v, o=(pad % 2, nx <= nw, pad > 2 * (nx + nw) // 3 * 2), nt=(nx > 1 and nw > 1), tr=4)


# ---------------------------------------------------------------- freduce / fexpand / fscale
# ------------------------------------------------------------------ many traces / long signals: beyond every internal block size
def convbig_cases(tier, seed):
    from mc import thresholds
    rows = thresholds.beyond(thresholds.mine([fourier], 32, 3000), extra=(130, 300, 385, 1000), cap=3100)
    lens = thresholds.beyond(thresholds.mine([fourier], 3000, 200000), extra=(70001,), cap=210000)
    return [("rows", r) for r in rows] + [("len", n) for n in lens]


def convbig_check(case):
    what, n = case
    rng = _rng(11, n)
    v = []
    if what == "rows":
        x = rng.standard_normal((n, 45))
        w = np.hanning(9)
        for mode in ("full", "same"):
            out = fourier.convolve(x, w, mode=mode)
            ref = np.stack([np.convolve(x[i], w, mode=mode) for i in range(n)])
            got = out[:, :ref.shape[1]] if mode == "full" else out
            if got.shape != ref.shape or np.max(np.abs(got - ref)) > 1e-9 * np.max(np.abs(ref)):
                bad = int(np.argmax(np.max(np.abs(got - ref), axis=1))) if got.shape == ref.shape else -1
                v.append(("convolve:many-traces", "%s convolution of a (%d, 45) array: differs from the direct convolution (worst trace %d)" % (mode, n, bad)))
    else:
        x = rng.standard_normal((2, n))
        w = np.hanning(33)
        for mode in ("full", "same"):
            out = fourier.convolve(x, w, mode=mode)
            ref = np.stack([scipy.signal.fftconvolve(x[i], w, mode=mode) for i in range(2)])
            got = out[:, :ref.shape[1]] if mode == "full" else out
            if got.shape != ref.shape or np.max(np.abs(got - ref)) > 1e-8 * np.max(np.abs(ref)):
                v.append(("convolve:long-signal", "%s convolution of %d samples differs from the direct convolution" % (mode, n)))
        for f, name in ((fourier.lp, "lp"), (fourier.hp, "hp")):
            pass
        lo, hi = fourier.lp(x, 1.0, [0.1, 0.2]), fourier.hp(x, 1.0, [0.1, 0.2])
        if lo.shape != x.shape or np.max(np.abs(lo + hi - x)) > 1e-9 * np.max(np.abs(x)):
            v.append(("lp+hp:long-signal", "low-pass plus high-pass is not the identity on %d samples" % n))
    return Res(v, o=what, tr=4)


def spec_cases(tier, seed):
    N = 600 if tier == "quick" else 2048
    return list(range(1, N + 1))


def spec_check(n):
    v = []
    rng = _rng(2, n)
    # every axis of 1-, 2- and 3-D arrays
    for shape, axis in (((n,), 0), ((n,), None), ((n, 3), 0), ((2, n), 1), ((2, n), None),
                        ((n, 2, 2), 0), ((2, n, 2), 1), ((2, 2, n), 2), ((2, 2, n), None)):
        ax = len(shape) - 1 if axis is None else axis
        x = rng.standard_normal(shape)
        X = np.fft.fft(x, axis=ax)
        R = np.fft.rfft(x, axis=ax)
        try:
            red = fourier.freduce(X, axis=axis) if axis is not None else fourier.freduce(X)
            if red.shape != R.shape or not np.array_equal(red, np.take(X, np.arange(n // 2 + 1), axis=ax)):
                v.append(("freduce", "freduce n=%d shape=%r axis=%r is not the non-negative half spectrum" % (n, shape, axis)))
                continue
            exp = fourier.fexpand(red, ns=n, axis=axis) if axis is not None else fourier.fexpand(red, ns=n)
            scale = 1e-9 * (1 + np.max(np.abs(X)))
            if exp.shape != X.shape or not np.allclose(exp, X, rtol=0, atol=scale):
                v.append(("fexpand", "fexpand(freduce(X)) != X for n=%d shape=%r axis=%r" % (n, shape, axis)))
            back = fourier.freduce(fourier.fexpand(R, ns=n, axis=ax), axis=ax)
            if back.shape != R.shape or not np.array_equal(back, R):
                v.append(("freduce-fexpand", "freduce(fexpand(R)) != R for n=%d shape=%r axis=%r" % (n, shape, axis)))
            rec = np.real(np.fft.ifft(fourier.fexpand(R, ns=n, axis=ax), axis=ax))
            if not np.allclose(rec, x, rtol=0, atol=1e-9 * (1 + np.max(np.abs(x)))):
                v.append(("fexpand:ifft", "ifft(fexpand(rfft(x))) != x for n=%d shape=%r axis=%r" % (n, shape, axis)))
        except Exception as e:
            v.append(("freduce/fexpand:exc", "n=%d shape=%r axis=%r raised %s: %s" % (n, shape, axis, type(e).__name__, e)))
    # frequency scale = DFT bin frequencies (Nyquist reported positive)
    for si in (1, 1 / 30000., 0.004):
        try:
            f = fourier.fscale(n, si)
            f1 = fourier.fscale(n, si, one_sided=True)
        except Exception as e:
            v.append(("fscale:exc", "fscale(%d) raised %s" % (n, e)))
            continue
        ref = np.fft.fftfreq(n, si)
        if n % 2 == 0:
            ref[n // 2] = -ref[n // 2]
        if f.shape != ref.shape or not np.allclose(f, ref, rtol=1e-12, atol=0):
            v.append(("fscale", "fscale(%d, %g) != fft bin frequencies" % (n, si)))
        if f1.shape != (n // 2 + 1,) or not np.allclose(f1, np.fft.rfftfreq(n, si), rtol=1e-12, atol=0):
            v.append(("fscale:one_sided", "fscale(%d, %g, one_sided) != rfft bin frequencies" % (n, si)))
    return Res(v, o=(n % 2, n < 3), nt=n > 2, tr=40)


# ---------------------------------------------------------------- fast size
def _sizes():
    s = sorted({2 ** a * 3 ** b for a in range(26) for b in range(16)})
    return np.array(s, dtype=np.int64)


def nso_cases(tier, seed):
    N = 100000 if tier == "quick" else 1000000
    B = 2000
    return [(a, min(a + B, N + 1)) for a in range(1, N + 1, B)] + [(2 ** 24 - 3, 2 ** 24 + 1), (3 ** 14 - 2, 3 ** 14 + 2)]


_SZ = _sizes()


def nso_check(case):
    a, b = case
    v = []
    for n in range(a, b):
        got = int(fourier.ns_optim_fft(n))
        ref = int(_SZ[np.searchsorted(_SZ, n)])
        if got != ref:
            v.append(("ns_optim_fft", "ns_optim_fft(%d) = %d, smallest 2^a 3^b >= n is %d" % (n, got, ref)))
            if len(v) > 3:
                break
    return Res(v, o="ok" if not v else "bad", tr=b - a)


# ---------------------------------------------------------------- lp / hp / bp on the impulse basis
CORNERS = [(0.1, 0.2), (0.05, 0.45), (0.25, 0.26), (0.0, 0.5)]


def filt_cases(tier, seed):
    N = 300 if tier == "quick" else 512
    return list(range(2, N + 1))


def filt_check(n):
    v = []
    eye = np.eye(n)
    si = 0.002
    fs = 1 / si
    for c in CORNERS:
        b = [c[0] * fs, c[1] * fs]
        for axis, arr in ((1, eye), (0, eye), (None, eye), (-1, eye), (-2, eye)):
            kw = {} if axis is None else {"axis": axis}
            try:
                lo = fourier.lp(arr, si, b, **kw)
                hi = fourier.hp(arr, si, b, **kw)
            except Exception as e:
                v.append(("lp/hp:exc", "n=%d axis=%r raised %s: %s" % (n, axis, type(e).__name__, e)))
                continue
            if lo.shape != arr.shape or not np.allclose(lo + hi, arr, rtol=0, atol=1e-10):
                v.append(("lp+hp", "lp+hp != identity for n=%d corners=%r axis=%r (max err %.3g)"
                          % (n, c, axis, float(np.max(np.abs(lo + hi - arr))))))
    # band pass = high pass then low pass
    # ... with corners at zero frequency and at Nyquist (int 0, float 0.0, numpy zero) among them
    for (c1, c2) in (((0.02, 0.05), (0.2, 0.3)), ((0.1, 0.2), (0.15, 0.4)), ((0, 0.04), (0.2, 0.3)), ((0.0, 0.04), (0.2, 0.5)), ((np.float64(0), 0.1), (0.3, 0.4))):
        b4 = [c1[0] * fs, c1[1] * fs, c2[0] * fs, c2[1] * fs]
        for axis in (0, 1):
            try:
                bpo = fourier.bp(eye, si, b4, axis=axis)
                prod = fourier.lp(fourier.hp(eye, si, b4[:2], axis=axis), si, b4[2:], axis=axis)
                prod2 = fourier.hp(fourier.lp(eye, si, b4[2:], axis=axis), si, b4[:2], axis=axis)
            except Exception as e:
                v.append(("bp:exc", "n=%d axis=%r raised %s: %s" % (n, axis, type(e).__name__, e)))
                continue
            if not (np.allclose(bpo, prod, rtol=0, atol=1e-10) and np.allclose(bpo, prod2, rtol=0, atol=1e-10)):
                v.append(("bp", "bp != hp.lp for n=%d axis=%d" % (n, axis)))
    # 3-D input, every axis (one corner pair, seeded content)
    x3 = _rng(3, n).standard_normal((n, 2, 3))
    for axis in (0, 1, 2):
        a3 = np.moveaxis(x3, 0, axis)
        b = [0.1 * fs, 0.2 * fs]
        try:
            lo = fourier.lp(a3, si, b, axis=axis)
            hi = fourier.hp(a3, si, b, axis=axis)
            ref = np.moveaxis(fourier.lp(np.moveaxis(a3, axis, -1), si, b), -1, axis)
            if not np.allclose(lo + hi, a3, rtol=0, atol=1e-9) or not np.allclose(lo, ref, rtol=0, atol=1e-9):
                v.append(("lp/hp:3d", "3-D lp/hp along axis %d for n=%d wrong" % (axis, n)))
        except Exception as e:
            v.append(("lp/hp:3d:axis%d:exc" % axis, "3-D lp/hp along axis %d, n=%d raised %s: %s" % (axis, n, type(e).__name__, e)))
    return Res(v, o=(n % 2,), tr=len(CORNERS) * 6 + 12 + 6)


# ---------------------------------------------------------------- filters against the definition, in sequences of calls (no hidden state)
def fhist_cases(tier, seed):
    N = 120 if tier == "quick" else 300
    return [(a, min(a + 10, N + 1)) for a in range(4, N + 1, 10)]


def _ref_response(n, si, b, typ):
    f = np.fft.rfftfreq(n, si)
    r = np.clip((f - b[0]) / (b[1] - b[0]), 0, 1)
    hp = (1 - np.cos(r * np.pi)) / 2
    return hp if typ == "hp" else 1 - hp


def fhist_check(case):
    a, bnd = case
    seen = {}
    ntr = 0
    for n in range(a, bnd):
        eye = np.eye(n)
        b = [0.1, 0.2]
        for seq in ((1.0, 0.5, 1.0), (0.002, 1 / 400., 0.002), (2.0, 1.0)):
            for si in seq:
                for typ, fn in (("lp", fourier.lp), ("hp", fourier.hp)):
                    out = fn(eye, si, [b[0] / seq[0], b[1] / seq[0]], axis=1)          # the same corner values (Hz) whatever si
                    ntr += 1
                    H = _ref_response(n, si, [b[0] / seq[0], b[1] / seq[0]], typ)
                    ref = np.fft.irfft(np.fft.rfft(eye, axis=1) * H[None, :], n, axis=1)
                    if not np.allclose(out, ref, rtol=0, atol=1e-10):
                        seen.setdefault("filter-definition:call-sequence", "n=%d: after calls with sampling intervals %r, %s(si=%r, corners %r) differs from its definition by %.3g"
                                        % (n, seq, typ, si, [b[0] / seq[0], b[1] / seq[0]], float(np.max(np.abs(out - ref)))))
        # a frequency scale edited by its caller (as ibldsp.voltage.fk does with kscale[0]) must not change the next one
        for si in (1.0, 0.5):
            f1 = fourier.fscale(n, si)
            f1[0] = 1e-6
            f1 *= 1000
            f2 = fourier.fscale(n, si)
            ref = np.fft.fftfreq(n, si)
            if n % 2 == 0:
                ref[n // 2] = -ref[n // 2]
            if not np.allclose(f2, ref, rtol=1e-12, atol=0):
                seen.setdefault("fscale:shared-result", "fscale(%d, %r) returns an array altered by a previous caller" % (n, si))
    return Res(list(seen.items()), o="f", tr=ntr)


# ---------------------------------------------------------------- explicit DFTs
def dft_cases(tier, seed):
    N = 64 if tier == "quick" else 128
    return list(range(1, N + 1))


def dft_check(n):
    v = []
    rng = _rng(4, n)
    # impulse basis (real) -> the whole operator; complex seeded content
    eye = np.eye(n)
    for name, x, axis in (("real,axis0", eye, 0), ("real,axis1", eye, 1), ("real,axis-1", eye, -1),
                          ("real3d,axis1", rng.standard_normal((2, n, 3)), 1),
                          ("real3d,axis2", rng.standard_normal((2, 3, n)), 2),
                          ("real3d,axis0", rng.standard_normal((n, 3, 2)), 0),
                          ("real1d", rng.standard_normal(n), 0)):
        try:
            X = fourier.dft(x, axis=axis)
        except Exception as e:
            v.append(("dft:exc", "dft n=%d %s raised %s: %s" % (n, name, type(e).__name__, e)))
            continue
        ref = np.fft.rfft(x, axis=axis)
        if X.shape != ref.shape or not np.allclose(X, ref, rtol=0, atol=1e-9 * n):
            v.append(("dft:real", "dft(%s, n=%d) != rfft: shape %r vs %r" % (name, n, X.shape, ref.shape)))
    for name, x, axis in (("cplx,axis0", eye * (1 + 1j) + 1j * np.roll(eye, 1, 0), 0),
                          ("cplx,axis1", rng.standard_normal((3, n)) + 1j * rng.standard_normal((3, n)), 1),
                          ("cplx1d", rng.standard_normal(n) + 1j * rng.standard_normal(n), 0)):
        try:
            X = fourier.dft(x, axis=axis)
        except Exception as e:
            v.append(("dft:exc", "dft n=%d %s raised %s: %s" % (n, name, type(e).__name__, e)))
            continue
        ref = np.fft.fft(x, axis=axis)
        if X.shape != ref.shape or not np.allclose(X, ref, rtol=0, atol=1e-9 * n):
            v.append(("dft:complex", "dft(%s, n=%d) != fft" % (name, n)))
    # 2-D dft on a regular grid equals fft2 (n x m grids, m in a small set)
    for m in (1, 2, 3, 5):
        if n > 24 and m > 2:
            continue
        nt = 3
        img = rng.standard_normal((n, m, nt))
        r, c = [q.flatten() for q in np.meshgrid(np.arange(n) / n, np.arange(m) / m, indexing="ij")]
        try:
            X = fourier.dft2(img.reshape(n * m, nt), r, c, n, m)
        except Exception as e:
            v.append(("dft2:exc", "dft2 %dx%d raised %s: %s" % (n, m, type(e).__name__, e)))
            continue
        ref = np.fft.fft2(img, axes=(0, 1))
        if X.shape != ref.shape or not np.allclose(X, ref, rtol=0, atol=1e-8 * n * m):
            v.append(("dft2", "dft2 on the regular %dx%d grid != fft2" % (n, m)))
    return Res(v, o=(n % 2,), tr=14)


# ---------------------------------------------------------------- cosine soft threshold
def cos_cases(tier, seed):
    vals = [-3.0, -1.0, 0.0, 0.5, 1.0, 2.5, 300.0, 1e-3]
    return [(a, b) for a in vals for b in vals if b > a]


def cos_check(case):
    a, b = case
    v = []
    f = utils.fcn_cosine([a, b])
    x = np.concatenate([np.linspace(a - 2 * (b - a), b + 2 * (b - a), 4001), [a, b, np.nextafter(a, b), np.nextafter(b, a)]])
    x.sort()
    y = f(x.copy())
    if y.shape != x.shape or np.any(np.isnan(y)):
        v.append(("fcn_cosine:shape", "bad output"))
        return Res(v)
    if not (np.all(y[x <= a] == 0) and np.all(np.abs(y[x >= b] - 1) <= 1e-12)):
        v.append(("fcn_cosine:bounds", "not 0 below / 1 above the bounds %r" % (case,)))
    if np.any(np.diff(y) < -1e-12) or y.min() < -1e-15 or y.max() > 1 + 1e-12:
        v.append(("fcn_cosine:monotone", "not monotone within [0,1] for bounds %r" % (case,)))
    mid = f(np.array([(a + b) / 2.0]))[0]
    if abs(mid - 0.5) > 1e-9:
        v.append(("fcn_cosine:mid", "value at the mid point is %r" % mid))
    return Res(v, tr=2)


CHECK = {
    "property": "C18",
    "rule": "cases are distinct lengths / length pairs / bound pairs; non-trivial = both lengths > 1 (convolution), n > 2 (spectra)",
    "assumptions": [
        "linear operators are decided on the full impulse basis of one argument with seeded content of the other (VERIF_SEED)",
        "convolve 'full' returns nx+nw samples (pinned by the repository's own test); the oracle requires the first nx+nw-1 "
        "to equal numpy.convolve and the rest to be 0",
        "tolerance 1e-9 relative (double precision FFT round-off), exact equality where only gathers are involved",
    ],
    "clauses": [
        Clause("convolve", "all (nx, nw) in the box, full+same, impulse basis", cases=conv_cases, check=conv_check, setup=_setup),
        Clause("convolve-scale", "2-D inputs with more traces / longer signals than every size constant mined from ibldsp.fourier", cases=convbig_cases, check=convbig_check, setup=_setup),
        Clause("spectra", "freduce/fexpand/fscale for every n, every axis of 1-3-D arrays", cases=spec_cases, check=spec_check, setup=_setup),
        Clause("fastsize", "ns_optim_fft(n) for every n", cases=nso_cases, check=nso_check),
        Clause("filters", "lp+hp=id, bp=hp.lp on the impulse basis, every n, every axis", cases=filt_cases, check=filt_check, setup=_setup),
        Clause("filter-sequences", "lp/hp equal their definition in call sequences with changing sampling interval", cases=fhist_cases, check=fhist_check),
        Clause("dft", "dft/dft2 vs numpy.fft for every n", cases=dft_cases, check=dft_check, setup=_setup),
        Clause("cosine", "fcn_cosine monotone 0..1 for bound pairs on dense grids", cases=cos_cases, check=cos_check),
        _layouts.make_clause(__import__("checks._layout_specs", fromlist=["x"]).c18()),
    ],
}
