"""
C11 - truncated or inconsistent files open and expose exactly the complete samples.

E1 used as a crash-point enumeration of the *writer*: every file length (every number of trailing bytes of an
incomplete last frame) x what the metadata claims x sampling rate x reader class, plus compressed streams whose
.ch announces another sample count than the .meta.
"""
import os

import numpy as np

from mc.engine import Clause, Res
from mc import synth

import spikeglx

FS = [30000, 29999.757983, 2500, 2500.0325532900833, 30003.0003]
META_MODES = ["equal", "fewer", "more", "onemore", "fileSize", "in-progress"]
# "in-progress": the metadata SpikeGLX writes while it is still acquiring has no fileSizeBytes / fileTimeSecs / fileSHA1 yet (the shipped fixture
# sampleNP2.4_4shanks_while_acquiring_incomplete.ap.meta is of that kind - asserted below); only the online reader is meant for such files
IN_PROGRESS_KEYS = ("fileSizeBytes", "fileTimeSecs", "fileSHA1")


def _in_progress_anchored():
    f = os.path.join(os.path.dirname(os.path.abspath(spikeglx.__file__)), "tests", "fixtures", "sampleNP2.4_4shanks_while_acquiring_incomplete.ap.meta")
    if not os.path.exists(f):
        return False
    keys = {ln.split("=", 1)[0].lstrip("~") for ln in open(f).read().splitlines() if "=" in ln}
    return not any(k in keys for k in IN_PROGRESS_KEYS)


def _sites(k):
    return [(0, i // 2, i % 2) for i in range(k)]


def trunc_cases(tier, seed):
    cases = []
    # ... and long files, where a missing or extra frame is a relative difference of a few millionths
    plan = [(2, range(1, 31 if tier == "quick" else 61)), (5, range(1, 31 if tier == "quick" else 61)),
            (385, (1, 2, 7) if tier == "quick" else (1, 2, 3, 7, 8, 31)), (2, (100003, 400001) if tier == "quick" else (100003, 400001, 1200007))]
    inprog = _in_progress_anchored()
    for nc, frames in plan:
        frame = nc * 2
        for nf in frames:
            for extra in range(frame):
                nbytes = nf * frame + extra
                for mm in range(len(META_MODES)):
                    if nc == 385 and mm in (3, 4):
                        continue
                    if META_MODES[mm] == "in-progress" and not inprog:
                        continue
                    for fi in range(4 if nc < 385 else 2):
                        for rd in ((1, 3) if META_MODES[mm] == "in-progress" else (0, 1, 2, 3)):
                            cases.append((nc, nbytes, mm, fi, rd))
    return cases


def _claimed(mode, nf):
    return {"equal": nf, "fewer": max(nf - 1, 1), "more": nf + 3, "onemore": nf + 1, "fileSize": nf, "in-progress": nf}[mode]


def trunc_check(case):
    nc, nbytes, mm, fi, rd = case
    mode = META_MODES[mm]
    fs = FS[fi]
    frame = nc * 2
    nf = nbytes // frame
    k = nc - 1
    d = synth.proc_scratch()
    stem = "trunc_g0_t0.imec0.ap"
    # content: a byte ramp, so that every int16 differs from its neighbours
    raw = (np.arange(nbytes, dtype=np.int64) * 37 + 11) % 251
    raw = raw.astype(np.uint8)
    # value patterns: one third of the cases end in frames that are zero on every channel (zero-filled tail of an interrupted transfer, silent stretch),
    # one third are zero throughout - the complete frames present are what is exposed, whatever they hold
    content = (nf + nbytes % frame + fi) % 3
    if content == 1:
        raw[(nf - (nf + 2) // 3) * frame:] = 0
    elif content == 2:
        raw[:] = 0
    fbin = os.path.join(d, stem + ".bin")
    raw.tofile(fbin)
    items = synth.meta_items("NP2.1", _sites(k), _claimed(mode, nf), fs=fs)
    if mode == "fileSize":
        items = [(a, ("%d" % nbytes) if a == "fileSizeBytes" else b) for a, b in items]
    if mode == "in-progress":
        items = [(a, b) for a, b in items if a not in IN_PROGRESS_KEYS]
    with open(os.path.join(d, stem + ".meta"), "w") as f:
        f.write(synth.meta_text(items))
    v = []
    cls = spikeglx.OnlineReader if rd in (1, 3) else spikeglx.Reader
    cname = ["offline", "online", "offline-ignore-warnings", "online-ignore-warnings"][rd] + (":in-progress-meta" if mode == "in-progress" else "")
    kwargs = {"ignore_warnings": True} if rd >= 2 else {}
    partial = (nbytes % frame) != 0
    tag = "%s:%s" % (cname, "partial-frame" if partial else "whole-frames")
    try:
        sr = cls(fbin, sort=False, **kwargs)
    except Exception as e:
        return Res([("open:%s:%s" % (tag, type(e).__name__),
                     "opening a %d-byte file (%d frames of %d bytes + %d trailing bytes, meta claims %d samples, fs=%r) raised %s: %s"
                     % (nbytes, nf, frame, nbytes % frame, _claimed(mode, nf), fs, type(e).__name__, e))], o="openfail")
    try:
        if sr.ns != nf:
            v.append(("ns:%s" % tag, "ns=%r but floor(%d/%d)=%d complete frames are present" % (sr.ns, nbytes, frame, nf)))
        if tuple(sr.shape) != (sr.ns, nc):
            v.append(("shape:%s" % tag, "shape %r != (ns, nc)" % (sr.shape,)))
        if abs(sr.rl - sr.ns / fs) > 1e-9 * max(1.0, sr.rl):
            v.append(("duration:%s" % tag, "rl=%r but ns/fs=%r" % (sr.rl, sr.ns / fs)))
        ref_int = np.frombuffer(raw[: nf * frame].tobytes(), dtype=np.int16).reshape(nf, nc)
        s2v = np.array(synth.ref_s2v("NP2.1", "ap", k, 1), dtype=np.float64)
        ref = ref_int.astype(np.float32) * s2v.astype(np.float32)[None, :]
        for sel in (slice(None), slice(0, nf), slice(0, nf + 5), slice(nf - 1, nf + 2), slice(nf, nf + 3), slice(-1, None),
                    slice(None, None, -1), slice(nf + 1, None)):
            try:
                got = sr[sel, :]
            except Exception as e:
                v.append(("read:%s:%s" % (tag, type(e).__name__), "sr[%r, :] raised %s: %s" % (sel, type(e).__name__, e)))
                break
            exp = ref[sel, :]
            if got.shape != exp.shape or not np.array_equal(got, exp):
                v.append(("read:%s" % tag, "sr[%r, :] has shape %r, the file's complete frames give %r%s"
                          % (sel, got.shape, exp.shape, "" if got.shape != exp.shape else " (values differ)")))
                break
        if nf >= 1:
            last = sr[nf - 1]
            if last.shape != (nc,) or not np.array_equal(last, ref[nf - 1]):
                v.append(("read:last:%s" % tag, "sr[ns-1] differs from the last complete frame"))
    finally:
        try:
            sr.close()
        except Exception:
            pass
    return Res(v, o=(partial, mode, rd, content), nt=(partial or mode != "equal"), tr=10)


# ------------------------------------------------------------------ compressed stream with another sample count than announced
def cbin_cases(tier, seed):
    out = []
    # long streams compressed with the nominal rate while the metadata carries the measured one
    for ns_c in (5000, 45017, 61003):
        for delta in (-5, 0, 1):
            out.append((2, ns_c, delta, 4, 0, 30000.0))
    for nc in (2, 5):
        for ns_c in range(1, 20 if tier == "quick" else 40):
            for delta in (-3, -1, 0, 1, 4):
                for fi in (0, 1, 2):
                    for iw in (0, 1):
                        out.append((nc, ns_c, delta, fi, iw))
    return out


def cbin_check(case):
    import mtscomp
    nc, ns_c, delta, fi, iw = case[:5]
    fs = FS[fi]
    ch_rate = case[5] if len(case) > 5 else fs
    claimed = max(ns_c + delta, 1)
    k = nc - 1
    d = synth.proc_scratch()
    stem = "cshort_g0_t0.imec0.ap"
    data = synth.separating_data(ns_c, nc, seed=ns_c) if ns_c * nc <= 65536 else \
        ((np.arange(ns_c)[:, None] * 389 + np.arange(nc)[None, :] * 7919) % 65536 - 32768).astype(np.int16)
    for suf in (".bin", ".cbin", ".ch", ".meta"):
        p = os.path.join(d, stem + suf)
        if os.path.exists(p):
            os.unlink(p)
    fbin = synth.write_recording(d, stem, data, synth.meta_items("NP2.1", _sites(k), claimed, fs=fs))
    mtscomp.compress(fbin, os.path.join(d, stem + ".cbin"), os.path.join(d, stem + ".ch"), sample_rate=ch_rate, n_channels=nc,
                     dtype=np.int16, chunk_duration=(4 if ns_c < 1000 else 1000) / fs, n_threads=1, check_after_compress=False, quiet=True)
    os.unlink(fbin)
    linked = (ns_c + delta + fi) % 3 == 0
    if linked:
        # a third of the cases: the compressed stream is a symbolic link into a data store (its .ch and .meta are regular files next to the link)
        synth.link_into_store(os.path.join(d, stem + ".cbin"))
    v = []
    try:
        sr = spikeglx.Reader(os.path.join(d, stem + ".cbin"), sort=False, ignore_warnings=bool(iw))
    except Exception as e:
        return Res([("cbin:open:%s" % type(e).__name__, "opening a cbin of %d samples whose meta claims %d%s raised %s: %s"
                     % (ns_c, claimed, " (the .cbin is a symbolic link into a data store)" if linked else "", type(e).__name__, e))], o="openfail")
    try:
        if sr.ns != ns_c or tuple(sr.shape) != (ns_c, nc):
            v.append(("cbin:ns" + (":ignore_warnings" if iw else ""), "ns=%r shape=%r but the compressed stream holds %d samples (meta claims %d, ignore_warnings=%s)"
                      % (sr.ns, sr.shape, ns_c, claimed, bool(iw))))
        if abs(sr.rl - ns_c / fs) > 1e-9:
            v.append(("cbin:duration", "rl=%r, expected %r" % (sr.rl, ns_c / fs)))
        s2v = np.array(synth.ref_s2v("NP2.1", "ap", k, 1)).astype(np.float32)
        ref = data.astype(np.float32) * s2v[None, :]
        for sel in (slice(None), slice(0, ns_c + 5), slice(ns_c - 1, ns_c + 3), slice(ns_c, ns_c + 2)):
            try:
                got = sr[sel, :]
            except Exception as e:
                v.append(("cbin:read:%s" % type(e).__name__, "sr[%r,:] raised %s: %s" % (sel, type(e).__name__, e)))
                break
            if got.shape != ref[sel].shape or not np.array_equal(got, ref[sel]):
                v.append(("cbin:read", "sr[%r,:] shape %r differs from the stream's content %r" % (sel, got.shape, ref[sel].shape)))
                break
    finally:
        sr.close()
    return Res(v, o=(np.sign(delta), linked), nt=delta != 0, tr=6)


# ------------------------------------------------------------------ other sample formats: bytes per sample is part of the frame size
def dtype_cases(tier, seed):
    out = []
    for dt in ("float32", "int16", "int32"):
        isz = np.dtype(dt).itemsize
        for nc in (2, 5):
            frame = nc * isz
            for nf in (1, 2, 7, 30):
                for extra in range(frame):
                    for mm in (0, 1, 2):
                        for rd in (0, 1):
                            out.append((dt, nc, nf * frame + extra, mm, rd))
    return out


def dtype_check(case):
    dt, nc, nbytes, mm, rd = case
    mode = META_MODES[mm]
    dtype = np.dtype(dt)
    frame = nc * dtype.itemsize
    nf = nbytes // frame
    k = nc - 1
    d = synth.proc_scratch()
    stem = "fmt_g0_t0.imec0.ap"
    vals = (np.arange(nf * nc, dtype=np.int64) * 37 % 2001 - 1000).astype(dtype)
    raw = vals.tobytes() + bytes((np.arange(nbytes - nf * frame) * 13 % 251).astype(np.uint8))
    fbin = os.path.join(d, stem + ".bin")
    with open(fbin, "wb") as f:
        f.write(raw)
    fs = FS[1]
    items = synth.meta_items("NP2.1", _sites(k), _claimed(mode, nf), fs=fs)
    with open(os.path.join(d, stem + ".meta"), "w") as f:
        f.write(synth.meta_text(items))
    cls = spikeglx.OnlineReader if rd else spikeglx.Reader
    tag = "%s:%s:%s" % (dt, "online" if rd else "offline", "partial-frame" if nbytes % frame else "whole-frames")
    v = []
    try:
        sr = cls(fbin, sort=False, dtype=dt)
    except Exception as e:
        return Res([("open:%s:%s" % (tag, type(e).__name__), "opening a %d-byte %s file (%d frames of %d bytes + %d trailing bytes, meta claims %d samples) raised %s: %s"
                     % (nbytes, dt, nf, frame, nbytes % frame, _claimed(mode, nf), type(e).__name__, e))], o="openfail")
    try:
        if sr.ns != nf or tuple(sr.shape) != (nf, nc):
            v.append(("ns:%s" % tag, "ns=%r shape=%r but floor(%d/%d)=%d complete frames of %s are present" % (sr.ns, sr.shape, nbytes, frame, nf, dt)))
        else:
            s2v = np.array(synth.ref_s2v("NP2.1", "ap", k, 1))
            ref = vals.reshape(nf, nc).astype(np.float32).astype(np.float64) * s2v[None, :]
            got = sr[:, :]
            from mc import refmodel
            if not refmodel.calib_close(np.asarray(got), ref):
                v.append(("read:%s" % tag, "full read of the %s file differs from its complete frames" % dt))
    finally:
        try:
            sr.close()
        except Exception:
            pass
    return Res(v, o=(dt, nbytes % frame != 0, rd), nt=True, tr=2)


# ------------------------------------------------------------------ a reader built first and opened after the file has changed
def deferred_cases(tier, seed):
    return [(nc, a, b) for nc in (2, 5) for a in ((20, 3), (20, 0), (7, 1)) for b in ((26, 3), (41, 0), (12, 2), (5, 1), (20, 3))]


def deferred_check(case):
    nc, (f1, x1), (f2, x2) = case
    frame = nc * 2
    d = synth.proc_scratch()
    stem = "dfr_g0_t0.imec0.ap"
    fbin = os.path.join(d, stem + ".bin")
    nb1, nb2 = f1 * frame + x1, f2 * frame + x2
    raw = ((np.arange(max(nb1, nb2), dtype=np.int64) * 37 + 11) % 251).astype(np.uint8)
    raw[:nb1].tofile(fbin)
    with open(os.path.join(d, stem + ".meta"), "w") as f:
        f.write(synth.meta_text(synth.meta_items("NP2.1", _sites(nc - 1), 40, fs=FS[1])))
    v = []
    try:
        sr = spikeglx.Reader(fbin, open=False, sort=False)
        raw[:nb2].tofile(fbin)                      # the writer goes on (or a shorter copy replaces the file)
        sr.open()
        if sr.ns != f2 or tuple(sr.shape) != (f2, nc):
            v.append(("deferred-open:ns", "reader built when the file held %d frames + %d bytes, opened when it held %d frames + %d bytes: ns=%r" % (f1, x1, f2, x2, sr.ns)))
        else:
            ref = np.frombuffer(raw[:f2 * frame].tobytes(), dtype=np.int16).reshape(f2, nc)
            got = sr[:, :]
            if got.shape != ref.shape or not np.array_equal(got[:, -1], ref[:, -1].astype(np.float32)):
                v.append(("deferred-open:read", "full read after a deferred open differs from the file"))
        sr.close()
    except Exception as e:
        v.append(("deferred-open:exc:%s" % type(e).__name__, "reader built at %d frames + %d bytes, opened at %d frames + %d bytes: %s: %s" % (f1, x1, f2, x2, type(e).__name__, e)))
    return Res(v, o=(f2 > f1,), tr=1)


# ------------------------------------------------------------------ one reader object over a history of file states
SIZES = ((20, 3), (20, 0), (7, 1), (26, 3), (41, 0), (5, 1))


def reopen_cases(tier, seed):
    return [(nc, a, b, c, online, first_open) for nc in (2, 5) for a in range(len(SIZES)) for b in range(len(SIZES)) for c in range(len(SIZES))
            for online in (0, 1) for first_open in (0, 1)]


def reopen_check(case):
    """the writer goes on (or a shorter copy replaces the file) between uses of ONE reader object: every open() exposes the frames present then"""
    nc, a, b, c, online, first_open = case
    frame = nc * 2
    d = synth.proc_scratch()
    stem = "reo_g0_t0.imec0.ap"
    fbin = os.path.join(d, stem + ".bin")
    sizes = [SIZES[a], SIZES[b], SIZES[c]]
    nbs = [f * frame + x for f, x in sizes]
    raw = ((np.arange(max(nbs), dtype=np.int64) * 37 + 11) % 251).astype(np.uint8)
    raw[:nbs[0]].tofile(fbin)
    fs = FS[1]
    with open(os.path.join(d, stem + ".meta"), "w") as f:
        f.write(synth.meta_text(synth.meta_items("NP2.1", _sites(nc - 1), sizes[0][0], fs=fs)))
    cls = spikeglx.OnlineReader if online else spikeglx.Reader
    v = []
    step = 0
    try:
        sr = cls(fbin, open=bool(first_open), sort=False, ignore_warnings=True)
        for step in (0, 1, 2):
            if step > 0 or not first_open:
                if step > 0:
                    sr.close()
                    raw[:nbs[step]].tofile(fbin)
                sr.open()
            nf = sizes[step][0]
            tag = "%s:%s" % ("online" if online else "offline", "first-open" if step == 0 else "reopen")
            ctx = "one %s object over the file states %r (frames, trailing bytes), at state %d" % (cls.__name__, sizes, step)
            if sr.ns != nf or tuple(sr.shape) != (nf, nc):
                v.append(("reopen:ns:%s" % tag, "%s: ns=%r shape=%r but %d complete frames are present" % (ctx, sr.ns, tuple(sr.shape), nf)))
                break
            if abs(sr.rl - nf / fs) > 1e-9:
                v.append(("reopen:duration:%s" % tag, "%s: rl=%r but ns/fs=%r" % (ctx, sr.rl, nf / fs)))
            ref = np.frombuffer(raw[:nf * frame].tobytes(), dtype=np.int16).reshape(nf, nc)
            got = sr[:, :]
            if got.shape != ref.shape or not np.array_equal(got[:, -1], ref[:, -1].astype(np.float32)) or sr[nf - 1].shape != (nc,):
                v.append(("reopen:read:%s" % tag, "%s: a full read has shape %r / other values than the %d frames of the file" % (ctx, got.shape, nf)))
                break
        sr.close()
    except Exception as e:
        v.append(("reopen:exc:%s:%s" % ("online" if online else "offline", type(e).__name__),
                  "one %s object over the file states %r, at state %d: %s: %s" % (cls.__name__, sizes, step, type(e).__name__, e)))
    return Res(v, o=(online, first_open, sizes[1][0] > sizes[0][0], sizes[2][0] > sizes[1][0]), tr=3)


CHECK = {
    "property": "C11",
    "rule": "one case per (channel count, file length in bytes, metadata claim, sampling rate, reader class); "
            "non-trivial = incomplete last frame or metadata disagreeing with the file",
    "assumptions": [
        "file contents are a fixed byte ramp, the same ramp with an all-zero tail, or all zero (the reader must do no value-dependent work when opening)",
        "for compressed files 'shorter than announced' is realised as a .ch/.cbin holding another sample count than the .meta claims; "
        "a .cbin whose own byte stream is cut is outside what the reader can detect without decoding and is not covered",
        "reads are checked for slices (NumPy never raises on slices); integer indices only inside the exposed range",
    ],
    "clauses": [
        Clause("truncation", "every file length x meta claim x fs x reader", cases=trunc_cases, check=trunc_check),
        Clause("cbin-mismatch", "compressed stream with another sample count than the metadata", cases=cbin_cases, check=cbin_check),
        Clause("deferred-open", "reader constructed with open=False, file changes, then opened", cases=deferred_cases, check=deferred_check),
        Clause("reopen", "one reader object (offline / online, opened at construction or later) closed and re-opened over every 3-step history of file sizes",
               cases=reopen_cases, check=reopen_check),
        Clause("sample-formats", "float32 / int16 / int32 files: frame = channels x bytes per sample", cases=dtype_cases, check=dtype_check),
    ],
}
