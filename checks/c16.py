"""
C16 - saturation flags follow the proportion rule and the mute gain covers them.  Engine E1.
"""
import itertools
from fractions import Fraction

import numpy as np

from mc.engine import Clause, Res
from mc import layouts as _layouts
from mc import synth

from ibldsp import voltage
import spikeglx

PROPS = [0.2, 0.5, 1 / 3, 0.0, 0.75]
NOSLEW = 1e12        # slew limit that no step reaches
FS = 30000


def _frac(p):
    return Fraction(p).limit_denominator(1000)


# ------------------------------------------------------------------ proportion rule on the amplitude test
def amp_cases(tier, seed):
    ncs = list(range(1, 41)) + [100, 384, 400]
    if tier == "thorough":
        ncs = list(range(1, 130)) + [384, 400]
    return [(nc, pi, vmode) for nc in ncs for pi in range(len(PROPS)) for vmode in (0, 1)]


def amp_check(case):
    nc, pi, vmode = case
    p = PROPS[pi]
    v = []
    rng = np.random.default_rng(nc * 7 + vmode)
    if vmode == 0:
        V = 1.2
        Vc = np.full(nc, V)
    else:
        Vc = 0.3 + rng.random(nc)
        V = Vc
    thr = Vc * 0.98                                   # the code's own float expression for "98 % of full scale"
    # samples: for every count k = 0..nc of channels over the threshold, three boundary placements, both signs
    levels = [("below", np.nextafter(thr, 0)), ("at", thr), ("above", np.nextafter(thr, 10))]
    cols, expect, what = [], [], []
    for k in range(nc + 1):
        chans = rng.permutation(nc)[:k]
        for name, lev in levels:
            col = np.zeros(nc)
            col[chans] = lev[chans] * np.where(rng.random(k) < 0.5, -1, 1)
            cols.append(col)
            over = k if name == "above" else 0
            expect.append(Fraction(over, nc) > _frac(p))
            what.append((k, name))
    data = np.stack(cols, axis=1)
    sat, mute = voltage.saturation(data.copy(), max_voltage=V, v_per_sec=NOSLEW, fs=FS, proportion=p, mute_window_samples=1)
    sat = np.asarray(sat).astype(bool)
    exp = np.array(expect)
    if sat.shape != exp.shape:
        return Res([("amp:shape", "saturation flags have shape %r for %d samples" % (sat.shape, exp.size))])
    bad = np.flatnonzero(sat != exp)
    if bad.size:
        k, name = what[bad[0]]
        v.append(("amp:%s" % name, "nc=%d proportion=%r: %d channels %s 98%% of range -> flagged=%s, expected %s (k/nc=%s)"
                  % (nc, p, k, name, sat[bad[0]], exp[bad[0]], Fraction(k, nc))))
    # the proportion as the number types callers hold it in (a NumPy scalar taken from an array, a ratio of NumPy integers)
    for pp in (np.float64(p), np.float32(p) if float(np.float32(p)) == p else np.float64(p)):
        satp, _ = voltage.saturation(data.copy(), max_voltage=V, v_per_sec=NOSLEW, fs=FS, proportion=pp, mute_window_samples=1)
        satp = np.asarray(satp).astype(bool)
        badp = np.flatnonzero(satp != exp) if satp.shape == exp.shape else np.array([0])
        if badp.size:
            k, name = what[badp[0]]
            v.append(("amp:%s:proportion-type" % name, "nc=%d proportion=%s(%r): %d channels %s 98%% of range -> flagged=%s, expected %s"
                      % (nc, type(pp).__name__, p, k, name, satp[badp[0]] if satp.shape == exp.shape else None, exp[badp[0]])))
            break
    # the same call again with the same range object: same flags, range untouched
    if vmode == 1:
        Vkeep = V.copy()
        sat2, _ = voltage.saturation(data.copy(), max_voltage=V, v_per_sec=NOSLEW, fs=FS, proportion=p, mute_window_samples=1)
        sat3, _ = voltage.saturation(data.copy(), max_voltage=V, v_per_sec=NOSLEW, fs=FS, proportion=p, mute_window_samples=1)
        if not (np.array_equal(np.asarray(sat2).astype(bool), exp) and np.array_equal(np.asarray(sat3).astype(bool), exp)) or not np.array_equal(V, Vkeep):
            v.append(("amp:repeated-call", "nc=%d: calling saturation again with the same per-channel range array gives other flags (range array modified: %s)"
                      % (nc, not np.array_equal(V, Vkeep))))
    return Res(v, o=(pi, vmode, bool(exp.any())), tr=1)


# ------------------------------------------------------------------ proportion rule on the slew test
def slew_cases(tier, seed):
    ncs = list(range(1, 41)) + [100, 384]
    return [(nc, pi) for nc in ncs for pi in range(len(PROPS))]


def slew_check(case):
    nc, pi = case
    p = PROPS[pi]
    v = []
    rng = np.random.default_rng(nc * 13 + pi)
    vps = 1e-8
    lim = vps * FS                                   # the limit on a one-sample step, in volts
    # sample 2j is quiet, the step 2j -> 2j+1 is big on k channels; the step back is small (spread over 3 quiet samples)
    cols, expect, what = [], [], []
    cur = np.zeros(nc)
    for k in range(nc + 1):
        for name, step in (("below", lim * (1 - 1e-6)), ("above", lim * (1 + 1e-6))):
            chans = rng.permutation(nc)[:k]
            sgn = np.where(rng.random(k) < 0.5, -1, 1)
            if k % 2:
                # steps that cross zero: from -step/2 to +step/2 (reached slowly beforehand)
                pre = np.zeros(nc)
                pre[chans] = -0.5 * step * sgn
                for f in (0.25, 0.5, 0.75):
                    cols.append(pre * f)
                    expect.append(False)
                    what.append((k, "approach"))
                cur = pre
            cols.append(cur.copy())
            nxt = cur.copy()
            nxt[chans] += step * sgn
            expect.append(Fraction(k if name == "above" else 0, nc) > _frac(p))
            what.append((k, name))
            cur = nxt
            # relax back in steps well under the limit
            nrelax = 3
            for r in range(nrelax):
                cols.append(cur.copy())
                expect.append(False)
                what.append((k, "relax"))
                cur = cur * (1 - 1 / (nrelax - r)) if r < nrelax - 1 else np.zeros(nc)
    cols.append(cur.copy())
    expect.append(False)       # the last sample has no next sample
    what.append((0, "last"))
    data = np.stack(cols, axis=1)
    sat, mute = voltage.saturation(data.copy(), max_voltage=1e9, v_per_sec=vps, fs=FS, proportion=p, mute_window_samples=1)
    sat = np.asarray(sat).astype(bool)
    exp = np.array(expect)
    if sat.shape != exp.shape:
        return Res([("slew:shape", "saturation flags have shape %r for %d samples" % (sat.shape, exp.size))])
    bad = np.flatnonzero(sat != exp)
    if bad.size:
        k, name = what[bad[0]]
        v.append(("slew:%s" % name, "nc=%d proportion=%r: %d channels step %s the slew limit into the next sample at sample %d -> flagged=%s, "
                  "expected %s; flags around: %r" % (nc, p, k, name, bad[0], sat[bad[0]], exp[bad[0]], sat[max(0, bad[0] - 2):bad[0] + 3].tolist())))
    return Res(v, o=(pi, bool(exp.any())), tr=1)


# ------------------------------------------------------------------ arrays longer than every internal block size: events on every block seam
def longarr_cases(tier, seed):
    return [(nc, vmode) for nc in (5, 8) for vmode in (0, 1)]


def longarr_check(case):
    """slew and amplitude events placed on, before and after every multiple of every size constant mined from ibldsp.voltage, in a long array"""
    from mc import thresholds
    nc, vmode = case
    ths = [t for t in thresholds.mine([voltage], 1000, 120000)]
    ns = int(min(max(ths + [65536]) * 2 + 1000, 280000))
    vps = 1e-8
    lim = vps * FS
    V = 1.0 if vmode == 0 else np.linspace(0.9, 1.1, nc)
    data = np.zeros((nc, ns))
    exp = np.zeros(ns, dtype=bool)
    seams = sorted({k * t for t in ths for k in range(1, ns // t + 1) if k * t < ns - 8})
    last = -10
    for m in seams:
        if m - last < 12:
            continue
        last = m
        which = (m // 7) % 3
        if which == 0:           # a big common step between samples m-1 and m (flag at m-1), undone slowly afterwards
            data[:, m:m + 4] += (np.array([1.0, 0.75, 0.5, 0.25]) * lim * 3.0)[None, :]
            exp[m - 1] = True
        elif which == 1:         # ... between samples m and m+1 (flag at m)
            data[:, m + 1:m + 5] += (np.array([1.0, 0.75, 0.5, 0.25]) * lim * 3.0)[None, :]
            exp[m] = True
        else:                    # an amplitude event on sample m-1 and m: level reached and left in steps below the slew limit? no: a direct jump flags the step too
            data[:, m - 1:m + 1] = 0.99 * np.max(V)
            exp[m - 2:m + 1] = True      # step into the event (m-2), the event itself (m-1, m); the step out of it flags m as well
    sat, mute = voltage.saturation(data.copy(), max_voltage=V, v_per_sec=vps, fs=FS, proportion=0.2, mute_window_samples=7)
    sat = np.asarray(sat).astype(bool)
    v = []
    if sat.shape != exp.shape:
        return Res([("long-array:shape", "flags have shape %r for %d samples" % (sat.shape, ns))])
    # reference flags by the definition (per-sample proportion of channels over 98 % of range, or stepping over the slew limit into the next sample)
    Vc = np.broadcast_to(np.atleast_1d(V)[:, None] if np.ndim(V) else np.array([[V]]), (nc, 1)) if np.ndim(V) else np.full((nc, 1), V)
    amp = np.mean(np.abs(data) > Vc * 0.98, axis=0) > 0.2
    slew = np.r_[np.mean(np.abs(np.diff(data, axis=1)) > lim * 0.9, axis=0) > 0.2, False]          # steps are 3 x or 0.75 x the limit: nothing near it
    ref = amp | slew
    bad = np.flatnonzero(sat != ref)
    if bad.size:
        b = int(bad[0])
        near = [t for t in ths if min(b % t, t - b % t) <= 2]
        v.append(("long-array:flags", "nc=%d, %d samples: sample %d is flagged=%s, the proportion rule says %s (%d samples differ; size constants near a multiple: %r)"
                  % (nc, ns, b, bool(sat[b]), bool(ref[b]), bad.size, near)))
    mute = np.asarray(mute, dtype=float)
    # (long arrays go through an FFT convolution: 1e-9 absorbs its rounding)
    if mute.shape != (ns,) or np.any(mute[ref] > 1e-9) or np.nanmin(mute) < -1e-9 or np.nanmax(mute) > 1 + 1e-9:
        v.append(("long-array:mute", "nc=%d, %d samples: the mute gain is not 0 on every flagged sample / leaves [0, 1]" % (nc, ns)))
    far = np.ones(ns, dtype=bool)
    for i in np.flatnonzero(ref):
        far[max(0, i - 4):i + 5] = False
    if mute.shape == (ns,) and np.any(np.abs(mute[far] - 1) > 1e-9):
        v.append(("long-array:mute-far", "nc=%d, %d samples: the mute gain differs from 1 farther than the taper half-width from any flagged sample" % (nc, ns)))
    return Res(v, o=(nc, vmode, int(ref.sum())), tr=1)


# ------------------------------------------------------------------ both rules at the same sample, on different channels
def both_cases(tier, seed):
    return [(nc, pi) for nc in (5, 10, 20, 40, 100, 385) for pi in range(len(PROPS))]


def ref_flags(data, V, lim, p):
    """the rule of the property, sample by sample, with exact fractions; steps must not sit on the slew limit"""
    nc, ns = data.shape
    thr = V * 0.98
    out = []
    for t in range(ns):
        ka = int(np.sum(np.abs(data[:, t]) > thr))
        ks = 0
        if t + 1 < ns:
            st = np.abs(data[:, t + 1] - data[:, t])
            assert not np.any(np.abs(st / lim - 1) < 1e-9)
            ks = int(np.sum(st > lim))
        out.append(Fraction(ka, nc) > _frac(p) or Fraction(ks, nc) > _frac(p))
    return np.array(out)


def both_check(case):
    nc, pi = case
    p = PROPS[pi]
    rng = np.random.default_rng(nc + pi)
    vps = 1e-8
    lim = vps * FS
    V = 3 * lim                         # full scale a few slew limits high: it is reached in a handful of sub-limit steps
    v = []
    blocks, what = [], []
    ks = sorted({0, 1, int(p * nc), int(p * nc) + 1, nc // 2, nc - int(p * nc) - 1})
    for ka in ks:
        for kslew in ks:
            if ka + kslew > nc or ka < 0 or kslew < 0:
                continue
            perm = rng.permutation(nc)
            ca, cs = perm[:ka], perm[ka:ka + kslew]
            a = np.zeros(nc)
            a[ca] = 0.99 * V * np.where(rng.random(ka) < 0.5, -1, 1)          # over 98 % of range, reached slowly: no slew on these channels
            b = a.copy()
            b[cs] += lim * (1 + 1e-6) * np.where(rng.random(kslew) < 0.5, -1, 1)   # OTHER channels jump over the slew limit, staying far below the range
            ramp = [a * f for f in np.linspace(0, 1, 8)]
            down = [b * f for f in np.linspace(1, 0, 10)]
            seq = ramp + [b, b] + down[1:]
            blocks.append(np.stack(seq, axis=1))
            what += [(ka, kslew, t - (len(ramp) - 1)) for t in range(len(seq))]
    data = np.concatenate(blocks, axis=1)
    sat, mute = voltage.saturation(data.copy(), max_voltage=V, v_per_sec=vps, fs=FS, proportion=p, mute_window_samples=1)
    sat = np.asarray(sat).astype(bool)
    exp = ref_flags(data, V, lim, p)
    bad = np.flatnonzero(sat != exp)
    if bad.size:
        ka, kslew, rel = what[bad[0]]
        v.append(("both-rules", "nc=%d proportion=%r: block with %d channels over 98%% of range and %d OTHER channels over the slew limit (sample offset %d from the step): "
                  "flagged=%s, expected %s (each rule is compared with the proportion on its own)" % (nc, p, ka, kslew, rel, sat[bad[0]], exp[bad[0]])))
    return Res(v, o=(pi, bool(exp.any())), tr=1)


# ------------------------------------------------------------------ mute gain on every flag pattern
WIDTHS = [1, 3, 5, 7, 9, 11, 31, 2, 4, 8, 0]


def mute_cases(tier, seed):
    L = 12 if tier == "quick" else 14
    return [(n, w) for n in range(1, L + 1) for w in WIDTHS]


def _realise(flags, how, nc):
    """data whose flags are `flags` (None if this realisation cannot produce them)"""
    n = len(flags)
    if how == "amp":
        d = np.zeros((nc, n))
        d[:, np.array(flags, dtype=bool)] = 2.0
        return d, dict(max_voltage=1.0, v_per_sec=NOSLEW)
    if how == "amp-some":
        d = np.zeros((nc, n))
        kk = nc // 2 + 1                       # just over half the channels
        d[:kk, np.array(flags, dtype=bool)] = -1.5
        return d, dict(max_voltage=np.full(nc, 1.0), v_per_sec=NOSLEW, proportion=0.5)
    if how == "slew":
        if flags[-1]:
            return None, None
        d = np.zeros((nc, n))
        x = 0.0
        for t in range(n):
            d[:, t] = x
            x += 1.0 if flags[t] else 1e-7
        return d, dict(max_voltage=1e9, v_per_sec=1e-8)
    raise ValueError(how)


def mute_check(case):
    n, w = case
    v = []
    half = w // 2
    even = (w % 2 == 0)
    tag = ":even-width" if even else ""
    nbad = {}
    for flags in itertools.product((0, 1), repeat=n):
        ref_mute = None
        for how, nc in (("amp", 1), ("amp", 5), ("amp-some", 4), ("slew", 3)):
            d, kw = _realise(flags, how, nc)
            if d is None:
                continue
            sat, mute = voltage.saturation(d.copy(), fs=FS, mute_window_samples=w, **kw)
            sat = np.asarray(sat).astype(bool)
            mute = np.asarray(mute, dtype=float)
            if sat.tolist() != [bool(f) for f in flags]:
                nbad["mute:flags"] = nbad.get("mute:flags", 0) + 1
                if nbad["mute:flags"] == 1:
                    v.append(("mute:flags", "realisation %s of flags %r is flagged %r" % (how, flags, sat.astype(int).tolist())))
                continue
            probs = []
            if mute.shape != (n,) or np.any(np.isnan(mute)) or mute.min() < 0 or mute.max() > 1 + 1e-12:
                probs.append(("mute:range%s" % tag, "mute gain outside [0,1]: %r" % mute.tolist()))
            else:
                fl = np.array(flags, dtype=bool)
                if np.any(mute[fl] > 1e-12):
                    probs.append(("mute:flagged-not-zero%s" % tag, "gain %r on flagged samples (flags %r, width %d)"
                                  % (mute[fl].round(4).tolist(), flags, w)))
                idx = np.flatnonzero(fl)
                if idx.size:
                    dist = np.min(np.abs(np.arange(n)[:, None] - idx[None, :]), axis=1)
                else:
                    dist = np.full(n, 10 ** 6)
                far = dist > half
                if np.any(np.abs(mute[far] - 1) > 1e-12):
                    probs.append(("mute:far-not-one%s" % tag, "gain %r on samples farther than %d from any flag (flags %r)"
                                  % (mute[far].round(4).tolist(), half, flags)))
                if ref_mute is None:
                    ref_mute = mute
                elif not np.allclose(mute, ref_mute, rtol=0, atol=1e-12):
                    probs.append(("mute:depends-on-data", "two recordings with flags %r get different mute gains (%s vs first): %r vs %r"
                                  % (flags, how, mute.round(4).tolist(), ref_mute.round(4).tolist())))
            for k, m in probs:
                nbad[k] = nbad.get(k, 0) + 1
                if nbad[k] == 1:
                    v.append((k, m))
    return Res(v, o=(n, w % 2), tr=4 * 2 ** n)


# ------------------------------------------------------------------ full-scale voltage exposed by the reader
def range_cases(tier, seed):
    return [("3A", None, None), ("3B2", None, None), ("NP2.1", 0.5, 8192), ("NP2.4b", 0.62, 2048), ("NP2.4", 0.6, 512),
            ("NPultra", 0.6, 512), ("3B1", None, None), ("3B2", 0.6, 1024), ("3A", 0.6, 2048), ("NPultra", 0.62, 2048), ("NP2.1", 0.62, 2048)]


def range_check(case):
    kind, vr, mi = case
    d = synth.proc_scratch(clean=True)
    fam = synth.family(kind)
    if fam == "NP1":
        sites = [(0, r, c) for r in range(3) for c in ((0, 2) if r % 2 == 0 else (1, 3))]
    else:
        sites = [(0, i // 2, i % 2) for i in range(6)]
    gains = [(synth.GAINS[i % 8], synth.GAINS[(i + 3) % 8]) for i in range(6)]
    maxint_ = mi if mi is not None else (synth.KINDS[kind][4] or 512)
    # samples whose counts sit at 97.5 % (not saturated) and 98.5 % (saturated) of the ADC's full scale on every channel, quiet samples in between
    lo_c, hi_c = int(round(0.975 * maxint_)), int(round(0.985 * maxint_))
    data = np.zeros((12, 7), dtype=np.int16)
    data[3, :6] = lo_c
    data[6, :6] = hi_c
    data[9, :6] = -hi_c
    fbin = synth.write_recording(d, "rng_g0_t0.imec0.ap", data, synth.meta_items(kind, sites, 12, gains=gains, vrange=vr, maxint=mi))
    sr = spikeglx.Reader(fbin, sort=False)
    try:
        rv = np.asarray(sr.range_volts, dtype=float)
        volts = np.asarray(sr[:, :6]).T
        flags, _ = voltage.saturation(volts, max_voltage=sr.range_volts[:6], v_per_sec=NOSLEW, fs=FS, proportion=0.2, mute_window_samples=7)
        flags = np.flatnonzero(np.asarray(flags)).tolist()
    finally:
        sr.close()
    ref = synth.ref_s2v(kind, "ap", 6, 1, gains=gains, vrange=vr, maxint=mi)
    maxint = mi if mi is not None else (synth.KINDS[kind][4] or 512)
    exp = np.array(ref[:6]) * maxint
    v = []
    if rv.shape[0] != 7 or not np.allclose(rv[:6], exp, rtol=1e-6, atol=0):
        v.append(("range_volts", "%s: range_volts %r != full-scale range / gain %r" % (kind, rv[:6].tolist(), exp.tolist())))
    if flags != [6, 9]:
        v.append(("range:end-to-end", "%s (max int %d): voltages read through the reader with its range_volts flag samples %r as saturated; the samples at 98.5 %% of full scale are [6, 9] "
                  "(sample 3 sits at 97.5 %%)" % (kind, maxint_, flags)))
    # the same RELATIVE path under another working directory is another recording (two session folders with the same layout, metadata files of the same
    # size and modification time, as an archive tool leaves them): the full scale is that of the recording opened
    import os
    cwd = os.getcwd()
    try:
        gains2 = [(synth.GAINS[(i + 5) % 8], synth.GAINS[(i + 1) % 8]) for i in range(6)]
        vr2, mi2 = (vr, mi) if fam == "NP1" else ((0.62, 2048) if mi != 2048 else (0.5, 8192))
        texts = [synth.meta_text(synth.meta_items(kind, sites, 12, gains=g_, vrange=v_, maxint=m_)) for g_, v_, m_ in ((gains, vr, mi), (gains2, vr2, mi2))]
        size = max(len(t) for t in texts) + 12
        got = []
        for name, text in zip(("sessA", "sessB"), texts):
            dd = os.path.join(d, name)
            os.makedirs(dd, exist_ok=True)
            f2 = synth.write_recording(dd, "rng_g0_t0.imec0.ap", data, synth.meta_items(kind, sites, 12))
            pad = size - len(text) - len("userNotes=\n")
            with open(f2.replace(".bin", ".meta"), "w") as fh:
                fh.write(text + "userNotes=" + "x" * pad + "\n")
            os.utime(f2.replace(".bin", ".meta"), ns=(1_600_000_000_000_000_000, 1_600_000_000_000_000_000))
        for name in ("sessA", "sessB"):
            os.chdir(os.path.join(d, name))
            sr2 = spikeglx.Reader("rng_g0_t0.imec0.ap.bin", sort=False)
            got.append(np.asarray(sr2.range_volts, dtype=float)[:6])
            sr2.close()
        ref2 = synth.ref_s2v(kind, "ap", 6, 1, gains=gains2, vrange=vr2, maxint=mi2)
        maxint2 = mi2 if mi2 is not None else (synth.KINDS[kind][4] or 512)
        exp2 = np.array(ref2[:6]) * maxint2
        if not np.allclose(got[1], exp2, rtol=1e-6, atol=0):
            v.append(("range_volts:relative-path", "%s: a recording opened through the relative path rng_g0_t0.imec0.ap.bin after another recording was opened through the same relative path from "
                      "another working directory: range_volts %r, its own metadata give %r (the first recording's: %r)" % (kind, got[1].tolist(), exp2.tolist(), got[0].tolist())))
    except Exception as e:
        v.append(("range_volts:relative-path:exc", "%s: %s: %s" % (kind, type(e).__name__, e)))
    finally:
        os.chdir(cwd)
    return Res(v, o=(kind, mi), tr=4)


CHECK = {
    "property": "C16",
    "rule": "amplitude/slew: one case per (channel count, proportion, range form), inside it every count k=0..nc at three boundary placements; "
            "mute: every 0/1 flag pattern of each length x taper width, realised by four different recordings; non-trivial = all",
    "assumptions": [
        "'98 % of full scale' is the float expression max_voltage*0.98; values are placed one ulp below, at and one ulp above it",
        "the slew limit on a one-sample step is v_per_sec*fs as the code defines it (abs(diff)/fs against v_per_sec); steps are placed 1e-6 relative below/above, "
        "the exactly-at case is not asserted (statement says 'exceed', code uses >=)",
        "proportion comparison is done with Fractions (k/nc > p with p the nearest simple rational of the float)",
    ],
    "clauses": [
        Clause("amplitude", "every (nc, k over threshold) x boundary placement x proportion x scalar/per-channel range", cases=amp_cases, check=amp_check),
        Clause("slew", "every (nc, k over slew limit) x below/above x proportion", cases=slew_cases, check=slew_check),
        Clause("long-arrays", "events on every multiple of every size constant mined from ibldsp.voltage in arrays of > 130000 samples", cases=longarr_cases, check=longarr_check),
        Clause("both-rules", "amplitude rule and slew rule met by different channels at the same sample", cases=both_cases, check=both_check),
        Clause("mute", "all flag patterns of length <= 12 x taper widths, four data realisations each", cases=mute_cases, check=mute_check),
        Clause("range", "Reader.range_volts = full-scale / gain for every probe kind", cases=range_cases, check=range_check),
        _layouts.make_clause(__import__("checks._layout_specs", fromlist=["x"]).c16()),
    ],
}
