"""
C04 - conversion never loses the original and is idempotent over run histories.  Engine E2.

State = the session directory.  Events = NP2Converter runs (option sets x overwrite x target), each either fault free
or killed before one of its deviation points (every filesystem mutation + every named processing step).
"""
import gc
import os
import shutil

import numpy as np

from mc.engine import Clause, HarnessError
from mc import synth, np2, histories, faults

import neuropixel
import spikeglx
import mtscomp

NS = 1300
NWINDOW = 600
ASSIGN = [1, 3, 3, 3]            # four sites on two shanks of different size, shank numbers not 0..k-1 (+ sync)
RATIO = 12


def _sites(kind):
    if kind.startswith("NP2.4"):
        return np2.sites_for(ASSIGN)
    if kind == "NP2.1":
        return np2.sites_for([0, 0, 0, 0])
    return [(0, 0, 0), (0, 0, 2), (0, 1, 1), (0, 1, 3)]


_DATA = {}


def _data():
    if "d" not in _DATA:
        _DATA["d"] = np2.content(NS, 5, "broadband", seed=4)
    return _DATA["d"]


OPTS_QUICK = [dict(post_check=True, compress=True, delete_original=False),
              dict(post_check=False, compress=True, delete_original=True),
              dict(post_check=True, compress=False, delete_original=False),
              dict(post_check=True, compress=False, delete_original=True)]
OPTS_ALL = [dict(post_check=a, compress=b, delete_original=c) for a in (True, False) for b in (True, False) for c in (False, True)]


class ConvModel(object):
    depth_now = 0

    def __init__(self, kind, tier, source="bin", apbase=None):
        self.kind = kind
        self.tier = tier
        self.source = source
        self.apbase = apbase or (np2.STEM + ".ap")       # name of the original AP file without its suffix

    def _band_file(self, folder, band):
        """the data file of a band in a folder, found through the metadata (snsApLfSy), not through its name"""
        if not os.path.isdir(folder):
            return None
        for fn in sorted(os.listdir(folder)):
            if not fn.endswith(".meta"):
                continue
            try:
                txt = open(os.path.join(folder, fn)).read()
                counts = [int(float(t)) for t in [ln for ln in txt.splitlines() if ln.startswith("snsApLfSy=")][0].split("=", 1)[1].split(",")]
            except Exception:
                continue
            b = "ap" if counts[0] != 0 else "lf"
            if b != band:
                continue
            for suf in (".bin", ".cbin"):
                g = os.path.join(folder, fn[:-5] + suf)
                if os.path.exists(g):
                    return g
        return None

    @staticmethod
    def info_key(info):
        return "+completed" if info.get("completed") else ""

    # ---------------------------------------------------------------- initial state
    def initial(self):
        root = os.path.join(synth.proc_scratch(), "c04_init_%s_%s" % (self.kind, self.source))
        np2.clean(root)
        kind = {"NP1": "3B2"}.get(self.kind, self.kind)
        ap = np2.make_session(root, kind, _sites(self.kind), _data())
        if self.apbase != np2.STEM + ".ap":
            for suf in (".bin", ".meta"):
                os.rename(str(ap.with_suffix(suf)), os.path.join(os.path.dirname(str(ap)), self.apbase + suf))
            ap = ap.with_name(self.apbase + ".bin")
        if self.source == "cbin":
            sr = spikeglx.Reader(ap)
            sr.compress_file(keep_original=False)
            sr.close()
        if self.source == "meta-shorter":
            # the metadata was written before the last 100 samples reached the disk: the file holds more than it declares
            fm = str(ap.with_suffix(".meta"))
            items = synth.meta_items(kind, _sites(self.kind), NS - 100)
            open(fm, "w").write(synth.meta_text(items))
        snap = histories.snapshot(root)
        meta = open(os.path.join(root, np2.LABEL, self.apbase + ".meta"), "rb").read()
        info = dict(kind=self.kind, completed=False, orig_meta_sha=histories.hashlib.sha1(meta).hexdigest())
        return [(snap, info)]

    # ---------------------------------------------------------------- event menu
    def events(self, info, depth):
        opts = OPTS_QUICK if self.tier == "quick" else OPTS_ALL
        ev = []
        for ow in (False, True):
            for o in opts:
                ev.append(dict(name="run", target="orig", overwrite=ow, **o))
        if self.kind.startswith("NP2.4"):
            for ow in (False, True):
                ev.append(dict(name="run", target="shank", overwrite=ow, post_check=True, compress=True, delete_original=True))
            # two process() calls on the SAME converter object (state carried from one call to the next)
            for ow, again, comp in ((False, True, True), (False, True, False), (False, False, True), (True, False, False), (True, True, True)):
                ev.append(dict(name="run", target="orig", overwrite=ow, post_check=True, compress=comp, delete_original=False, again=again))
        if self.kind in ("NP1", "NP2.1"):
            ev = [e for e in ev if e["target"] == "orig"]
            if self.kind == "NP1":
                ev = ev[:2] + ev[len(ev) // 2:len(ev) // 2 + 2]
        return ev

    # ---------------------------------------------------------------- one run of the real converter
    def _target(self, root, event):
        pdir = os.path.join(root, np2.LABEL)
        if event["target"] == "orig":
            for suf in (".bin", ".cbin"):
                f = os.path.join(pdir, self.apbase + suf)
                if os.path.exists(f):
                    return f
            return None
        for sh in range(4):
            for suf in (".bin", ".cbin"):
                f = os.path.join(np2.shank_folder(root, sh), self.apbase + suf)
                if os.path.exists(f) and os.path.exists(os.path.join(np2.shank_folder(root, sh), self.apbase + ".meta")) and os.path.getsize(f) > 0:
                    if suf.endswith("cbin") and not os.path.exists(f.replace(".cbin", ".ch")):
                        continue
                    return f
        return None

    def _run(self, root, event, crash_at, kind="kill"):
        target = self._target(root, event)
        if target is None:
            return None, None
        def damage(a, k):
            # one sample of what this window is about to write is altered (a flipped bit on the way to the disk)
            a = list(a)
            chunk = np.array(a[1], copy=True)
            if chunk.size:
                r = chunk.shape[0] // 2
                chunk[r, 0] = chunk[r, 0] + 1 if chunk[r, 0] < 32767 else chunk[r, 0] - 1
            a[1] = chunk
            return tuple(a), k
        damage.pre = True
        steps = [(neuropixel.NP2Converter, "_split2shanks", "split-window", damage), (neuropixel.NP2Converter, "_closefiles", "closefiles"),
                 (neuropixel.NP2Converter, "_writemetadata_ap", "meta-ap"), (neuropixel.NP2Converter, "_writemetadata_lf", "meta-lf"),
                 (neuropixel.NP2Converter, "check_NP24", "verify"), (neuropixel.NP2Converter, "compress_NP24", "compress"),
                 (neuropixel.NP2Converter, "compress_NP21", "compress21"), (neuropixel.NP2Converter, "delete_NP24", "delete"),
                 (mtscomp.Writer, "_compress_chunk", "compress-chunk"), (mtscomp.Reader, "_decompress_chunk", "decompress-chunk")]
        obs = dict(status=None, exc=None)
        with faults.watch(root, crash_at=crash_at, steps=steps, kind=kind) as w:
            try:
                if event.get("again") is None:
                    status, conv = np2.convert(target, nwindow=NWINDOW, overwrite=event["overwrite"], post_check=event["post_check"],
                                               compress=event["compress"], delete_original=event["delete_original"])
                    obs["status"] = int(status)
                else:
                    conv = neuropixel.NP2Converter(target, post_check=event["post_check"], compress=event["compress"], delete_original=event["delete_original"])
                    conv.init_params(nwindow=NWINDOW)
                    try:
                        obs["status"] = int(conv.process(overwrite=event["overwrite"]))
                        obs["canon_between"] = histories.canon(histories.snapshot(root))
                        obs["status2"] = int(conv.process(overwrite=event["again"]))
                    finally:
                        try:
                            conv.sr.close()
                        except Exception:
                            pass
                conv = None
            except faults.Crash:
                raise
            except Exception as e:
                obs["exc"] = "%s: %s" % (type(e).__name__, str(e)[:200])
        gc.collect()
        if w.crashed:
            obs["status"] = "crashed"
        elif kind == "error" and w.fired:
            obs["status"] = "io-error:%s" % ("raised" if obs["exc"] else "absorbed:%s" % obs["status"])
        elif kind == "corrupt" and w.fired:
            obs["status"] = "damaged-write:%s" % ("noticed" if obs["exc"] else "unnoticed:%s" % obs["status"])
        return obs, w

    # ---------------------------------------------------------------- invariants on a directory
    def _read_ap(self, f):
        """int16 content of an ap file (.bin or .cbin+.ch); None if unreadable"""
        try:
            if f.endswith(".cbin"):
                if not os.path.exists(f.replace(".cbin", ".ch")):
                    return None
                r = mtscomp.Reader()
                r.open(f, f.replace(".cbin", ".ch"))
                out = np.array(r[0:r.n_samples])
                r.close()
                return out
            raw = np.fromfile(f, dtype=np.int16)
            return raw
        except Exception:
            return None

    def _shank_content(self, root, sh, ncols):
        folder = np2.shank_folder(root, sh)
        for suf in (".bin", ".cbin"):
            f = os.path.join(folder, self.apbase + suf)
            if os.path.exists(f):
                a = self._read_ap(f)
                if a is None:
                    continue
                if a.ndim == 1:
                    if a.size != NS * ncols:
                        continue
                    a = a.reshape(NS, ncols)
                if a.shape == (NS, ncols):
                    return a
        return None

    def check_state(self, root, info):
        v = []
        data = _data()
        pdir = os.path.join(root, np2.LABEL)
        fmeta = os.path.join(pdir, self.apbase + ".meta")
        if not os.path.exists(fmeta) or histories.hashlib.sha1(open(fmeta, "rb").read()).hexdigest() != info["orig_meta_sha"]:
            v.append(("I1:original-meta", "the original metadata file is missing or modified"))
        fbin = os.path.join(pdir, self.apbase + ".bin")
        fcbin = os.path.join(pdir, self.apbase + ".cbin")
        ok = False
        have_orig = False
        if os.path.exists(fbin):
            have_orig = True
            raw = np.fromfile(fbin, dtype=np.int16)
            ok = raw.size == data.size and np.array_equal(raw.reshape(data.shape), data)
        if not ok and os.path.exists(fcbin):
            have_orig = True
            a = self._read_ap(fcbin)
            ok = a is not None and a.shape == data.shape and np.array_equal(a, data)
        how = "original"
        if not ok and self.kind.startswith("NP2.4"):
            how = "shanks"
            sites = _sites(self.kind)
            rebuilt = np.zeros_like(data)
            covered = np.zeros(data.shape[1], dtype=bool)
            for sh in sorted({s[0] for s in sites}):
                cols = [i for i, s in enumerate(sites) if s[0] == sh] + [data.shape[1] - 1]
                a = self._shank_content(root, sh, len(cols))
                if a is not None:
                    rebuilt[:, cols] = a
                    covered[cols] = True
            ok = bool(covered.all()) and np.array_equal(rebuilt, data)
        if not ok:
            v.append(("I1:original-lost", "the original samples cannot be recovered from the directory (original present: %s; shank files do not reassemble to it)" % have_orig))
        return v, have_orig, how

    def valid_output(self, root):
        """every shank folder holds a complete valid set of files; returns list of problems"""
        prob = []
        data = _data()
        nlf = -(-NS // RATIO)
        if self.kind.startswith("NP2.4"):
            sites = _sites(self.kind)
            for sh in sorted({s[0] for s in sites}):
                cols = [i for i, s in enumerate(sites) if s[0] == sh] + [data.shape[1] - 1]
                folder = np2.shank_folder(root, sh)
                for band, exp_shape in (("ap", (NS, len(cols))), ("lf", (nlf, len(cols)))):
                    f = self._band_file(folder, band)
                    if f is None:
                        prob.append("shank %d: no %s data file" % (sh, band))
                        continue
                    try:
                        sr = spikeglx.Reader(f, sort=False)
                        shape = tuple(sr.shape)
                        shkey = sr.meta.get("NP2.4_shank")
                        typ = sr.type
                        sr.close()
                        got = np2.read_raw(f, shape[1])
                    except Exception as e:
                        prob.append("shank %d: %s does not open: %s: %s" % (sh, os.path.basename(f), type(e).__name__, e))
                        continue
                    if shkey is None or int(shkey) != sh or typ != band:
                        prob.append("shank %d: %s metadata says shank %r, stream %r" % (sh, os.path.basename(f), shkey, typ))
                    if shape != exp_shape or got.shape != exp_shape:
                        prob.append("shank %d: %s has shape %r / content %r, expected %r" % (sh, os.path.basename(f), shape, got.shape, exp_shape))
                    elif band == "ap" and not np.array_equal(got, data[:, cols]):
                        prob.append("shank %d: ap content differs from the original columns" % sh)
                    elif band == "lf" and not np.array_equal(got[:, -1], data[::RATIO, -1]):
                        prob.append("shank %d: lf sync column is not the decimated sync" % sh)
        else:
            pdir = os.path.join(root, np2.LABEL)
            f = self._band_file(pdir, "lf")
            if f is None:
                prob.append("no lf file")
            else:
                try:
                    sr = spikeglx.Reader(f, sort=False)
                    shape = tuple(sr.shape)
                    sr.close()
                    got = np2.read_raw(f, shape[1])
                    if shape != (nlf, data.shape[1]) or got.shape != shape or not np.array_equal(got[:, -1], data[::RATIO, -1]):
                        prob.append("lf file has shape %r, expected %r (or wrong sync)" % (shape, (nlf, data.shape[1])))
                except Exception as e:
                    prob.append("lf file does not open: %s: %s" % (type(e).__name__, e))
        return prob

    # ---------------------------------------------------------------- expansion of one (state, event)
    def expand(self, sid, snap, info, event, fault_budget):
        root = os.path.join(synth.proc_scratch(), "c04_run")
        out = []
        pre_canon = histories.canon(snap)
        histories.restore(root, snap)
        pre_v, pre_have_orig, _ = self.check_state(root, info)
        obs, w = self._run(root, event, None)
        if obs is None:
            return []
        K = w.count
        runs = [(None, obs, w.log)]
        seen_local = {}

        def record(crash, obs, log, fault=None):
            snap2 = histories.snapshot(root)
            c2 = histories.canon(snap2)
            viol = []
            sv, have_orig, how = self.check_state(root, info)
            viol += sv
            info2 = dict(info)
            ctx = "%s after %s%s" % (self.kind, _evstr(event), "" if crash is None else " %s point %d (%s)" % (
{"error": "with an I/O error injected at", "corrupt": "with the data written at"}.get(fault, "killed before") + (" damaged:" if fault == "corrupt" else ""), crash, log[crash] if crash < len(log) else "?"))
            if not have_orig and pre_have_orig:
                # the original disappeared in this transition
                legit = (event["delete_original"] and event["post_check"] and self.kind.startswith("NP2.4") and event["target"] == "orig")
                if not legit:
                    viol.append(("I2:original-removed-unverified", "%s: the original file was removed although the run had delete_original=%s post_check=%s"
                                 % (ctx, event["delete_original"], event["post_check"])))
            if crash is None:
                status, exc = obs["status"], obs["exc"]
                info2["completed"] = (status == 1 and exc is None)
                if exc is not None:
                    key = "run:exc:overwrite" if event["overwrite"] else "run:exc"
                    viol.append((key, "%s: process() raised %s (pre-state: %s)" % (ctx, exc, histories.listing(snap))))
                elif event.get("again") is not None:
                    st2 = obs.get("status2")
                    if event["again"]:
                        prob = self.valid_output(root)
                        if st2 != 1 or prob:
                            viol.append(("S3:forced-run:same-object", "%s then process(overwrite=True) on the same converter object: returns %r and leaves: %s"
                                         % (ctx, st2, "; ".join(prob[:3]) or "valid output")))
                    else:
                        if (status == 1 or info.get("completed")) and (st2 != 0 or c2 != obs.get("canon_between")):
                            viol.append(("S1:repeated-run:same-object", "%s then process() again on the same converter object: returns %r and %s the directory"
                                         % (ctx, st2, "changes" if c2 != obs.get("canon_between") else "keeps")))
                    info2["completed"] = False
                elif self.kind == "NP1":
                    if status != -1 or c2 != pre_canon:
                        viol.append(("S2:not-NP2", "%s: an NP1 recording gives status %r and %s the directory" % (ctx, status, "changes" if c2 != pre_canon else "keeps")))
                elif event["target"] == "shank":
                    if status != 0 or c2 != pre_canon:
                        viol.append(("S2:already-split", "%s: a run on an already split shank file gives status %r and %s the directory"
                                     % (ctx, status, "changes" if c2 != pre_canon else "keeps")))
                elif not event["overwrite"] and info.get("completed"):
                    if status != 0 or c2 != pre_canon:
                        viol.append(("S1:repeated-run", "%s: a repeated run without overwrite after a completed run returns %r and %s the directory"
                                     % (ctx, status, "changes" if c2 != pre_canon else "keeps")))
                elif event["overwrite"] and pre_have_orig:
                    prob = self.valid_output(root)
                    if status != 1 or prob:
                        viol.append(("S3:forced-run", "%s: a forced re-run returns %r and leaves: %s (pre-state: %s)" % (ctx, status, "; ".join(prob[:3]) or "valid output", histories.listing(snap))))
                elif status == 1:
                    prob = self.valid_output(root)
                    if prob:
                        viol.append(("S3:first-run", "%s: a run that reports success leaves: %s" % (ctx, "; ".join(prob[:3]))))
            else:
                info2["completed"] = False
            first = (c2, info2["completed"]) not in seen_local
            seen_local[(c2, info2["completed"])] = True
            # directories holding a silently damaged window are checked but not expanded further (they would double the frontier for little)
            out.append(dict(event=event, crash=crash, fault=fault, obs=obs, canon=c2, snap=snap2 if (first and fault != "corrupt") else None, info=info2, violations=viol, points=K))

        record(None, obs, w.log)
        if fault_budget >= 1:
            for k in range(K):
                histories.restore(root, snap)
                obs_k, wk = self._run(root, event, k)
                if not wk.crashed:
                    raise HarnessError("crash point %d of %d was never reached when replaying %s: the run is not deterministic (%r vs %r)"
                                       % (k, K, _evstr(event), wk.log[:k + 1][-3:], w.log[:k + 1][-3:]))
                record(k, obs_k, w.log, "kill")
            # the same points with an I/O error (an ordinary exception: the converter's own handlers run) instead of a kill;
            # only the state invariants I1/I2 are asserted on what such a run leaves behind
            if (self.tier == "thorough" and self.depth_now <= 1) or (self.depth_now == 0 and event.get("again") is None):
                for k in range(K):
                    histories.restore(root, snap)
                    obs_k, wk = self._run(root, event, k, kind="error")
                    if not wk.fired:
                        raise HarnessError("fault point %d of %d was never reached when replaying %s: the run is not deterministic" % (k, K, _evstr(event)))
                    record(k, obs_k, w.log, "error")
            # a window reaches the shank files damaged (silent corruption of one write): a run that verifies its output (post_check) must not
            # remove the original on the strength of it - only the state invariants are asserted
            if event.get("post_check") and event["target"] == "orig" and self.kind.startswith("NP2.4") and event.get("again") is None:
                for k in range(K):
                    if w.log[k] != "step:split-window":
                        continue
                    histories.restore(root, snap)
                    obs_k, wk = self._run(root, event, k, kind="corrupt")
                    if not wk.fired:
                        raise HarnessError("fault point %d of %d was never reached when replaying %s: the run is not deterministic" % (k, K, _evstr(event)))
                    record(k, obs_k, w.log, "corrupt")
        return out


# ------------------------------------------------------------------ single runs on recordings the history search is too small for
def single_cases(tier, seed):
    out = []
    for kind in ("NP2.4", "NP2.1"):
        for fs in (30000.5, 29999.5, 30000):
            for post_check in (True, False):
                for nshank in ((None, [0], [1]) if kind == "NP2.4" else (None,)):
                    out.append((kind, fs, post_check, nshank))
    return out


def single_check(case):
    """
    a recording long enough for a calibrated sampling rate to matter (60013 samples at 30000.5 / 29999.5 Hz), and conversions restricted to a subset of the shanks:
    with delete_original=True the original may only go once every sample of every channel is in the per-shank files
    """
    import neuropixel
    from mc.engine import Res
    from checks import c03
    kind, fs, post_check, nshank = case
    root = os.path.join(synth.proc_scratch(), "c04s")
    np2.clean(root)
    ns = 60013
    sites = _sites(kind)
    data = np2.content(ns, 5, "ramp")
    ap = np2.make_session(root, kind, sites, data, fs=fs)
    sha = np2.sha1(ap)
    ctx = "%s recording of %d samples at %r Hz, process() with delete_original=True post_check=%s%s" % (kind, ns, fs, post_check, "" if nshank is None else " restricted to shanks %r" % nshank)
    seen = {}
    status = None
    conv = None
    try:
        conv = neuropixel.NP2Converter(ap, post_check=post_check, compress=False, delete_original=True)
        if nshank is None:
            conv.init_params(nwindow=20004)
        else:
            conv.init_params(nwindow=20004, nshank=nshank)
        status = conv.process()
    except BaseException as e:      # noqa  a refusal or a failed verification is fine - as long as the original is still there
        status = "%s: %s" % (type(e).__name__, str(e)[:80])
    finally:
        try:
            conv.sr.close()
        except Exception:
            pass
    if os.path.exists(str(ap)):
        if np2.sha1(ap) != sha:
            seen["single:original-modified"] = "%s (returned %r): the original is still there but its content changed" % (ctx, status)
    else:
        sub = {}
        if kind == "NP2.4":
            c03._compare_split(root, data, sites, sub, ctx)
        else:
            f = os.path.join(root, np2.LABEL, np2.STEM + ".ap.bin")
            sub["missing"] = "the AP file is gone"
        for k, m in sub.items():
            seen.setdefault("single:original-lost", "%s (returned %r): the original has been deleted although the per-shank files do not hold all of it: %s" % (ctx, status, m))
    shutil.rmtree(root, ignore_errors=True)
    return Res(list(seen.items()), o=(kind, fs != 30000, nshank is not None, os.path.exists(str(ap))), tr=1)


def _evstr(e):
    return "run(%s, overwrite=%s, post_check=%s, compress=%s, delete_original=%s%s)" % (
        e["target"], e["overwrite"], e["post_check"], e["compress"], e["delete_original"], "" if e.get("again") is None else ", then again overwrite=%s" % e["again"])


ODD_NAMES = ("m1_g0_t0_ap", "trap_g0_t0.imec0.ap")     # no ".ap." component / "ap" also elsewhere in the run name


def _mk(kind, source="bin", apbase=None):
    def run(tier, seed, jobs):
        # (history length, crash budget, frontier cap per level)
        if tier == "quick":
            depth, faults_, cap = 2, 1, None
            if source == "meta-shorter":
                depth = 1
        else:
            depth, faults_, cap = {("NP2.4", "bin"): (3, 2, 60), ("NP2.4", "cbin"): (2, 2, 100), ("NP2.4", "meta-shorter"): (2, 1, 100),
                                   ("NP2.1", "bin"): (3, 2, 120)}.get((kind, source), (2, 1, None))
        model = ConvModel(kind, tier, source, apbase)
        if kind == "NP1":
            depth, faults_, cap = 2, 1, None
        if apbase:
            depth, faults_ = ((2, 1) if kind == "NP2.1" else (1, 1)) if tier == "quick" else (2, 1)
            if tier == "quick" and apbase != ODD_NAMES[0]:
                depth, faults_ = 2, 0
        return histories.bfs(model, "histories-%s%s%s" % (kind, "" if source == "bin" else "-" + source, "@" + apbase if apbase else ""), tier, jobs, depth, faults_, cap_states=cap)
    return run


def _replay(case):
    """re-executes a recorded history (list of events with crash indices) on a fresh directory"""
    from mc.engine import Res
    name = case["model"]
    kind = name.replace("histories-", "")
    apbase = None
    if "@" in kind:
        kind, apbase = kind.split("@", 1)
    source = "bin"
    if kind.endswith("-cbin"):
        kind, source = kind[:-5], "cbin"
    if kind.endswith("-meta-shorter"):
        kind, source = kind[:-13], "meta-shorter"
    model = ConvModel(kind, "thorough", source, apbase)
    (snap, info), = model.initial()
    root = os.path.join(synth.proc_scratch(), "c04_replay")
    viol = []
    for ev in case["history"]:
        crash = ev.get("crash")
        fault = ev.get("fault", "kill") if crash is not None else None
        event = {k: v for k, v in ev.items() if k not in ("crash", "fault")}
        # expansion of exactly this event with the recorded crash point
        trans = model.expand(0, snap, info, event, 1 if crash is not None else 0)
        sel = [t for t in trans if t["crash"] == crash and t.get("fault") == fault]
        if not sel:
            raise HarnessError("recorded transition not reproduced")
        t = sel[0]
        viol = t["violations"]
        histories.restore(root, snap)
        model._run(root, event, crash, kind=fault or "kill")
        snap = histories.snapshot(root)
        info = t["info"]
    return Res(viol)


CHECK = {
    "property": "C04",
    "rule": "states are distinct directory contents (exact sha1 canonical form); transitions are real converter runs; non-trivial = reached through a crash or a history of >= 2 runs",
    "assumptions": [
        "recording: 4 sites on two shanks of 1 and 3 sites (+sync), 1300 samples, processing window 600 (3 windows, short last one); NP2.4 from .bin and from .cbin, NP2.1, NP1",
        "deviation points: every filesystem mutation below the session directory seen by an audit hook (open for writing, mkdir, rename, remove) and every entry of a named "
        "processing step (window write, close, metadata, verification, compression, per-chunk compression, deletion); a crash is raised *before* the point; data still in "
        "Python buffers is flushed when the dead converter is collected (only affects files that are incomplete outputs anyway)",
        "quick: histories of length <= 2 with <= 1 crash (length 1 for the longer-than-declared original), 4 option sets x overwrite, a run aimed at an already split shank file, "
        "and pairs of process() calls on one converter object; thorough: NP2.4 length <= 3 with <= 2 crashes, the other variants length 2, all 8 option triples, "
        "frontier capped at 60-120 states per level (reported in caps_hit); I/O-error faults at the first two levels",
        "a status-0 run on a directory left by an interrupted run may create the missing shank folders with empty files: recorded as an observation, not asserted "
        "(the property speaks of a repeated run after a completed one)",
        "mtscomp runs single-threaded (sequential pool) so that chunk order is program order",
    ],
    "clauses": [
        Clause("histories-NP2.4", "BFS over run histories, NP2.4 from .bin", run=_mk("NP2.4"), replay=_replay),
        Clause("histories-NP2.4-cbin", "BFS over run histories, NP2.4 from a compressed original", run=_mk("NP2.4", "cbin"), replay=_replay),
        Clause("histories-NP2.4-meta-shorter", "BFS over run histories, NP2.4 whose binary holds more samples than its metadata declares", run=_mk("NP2.4", "meta-shorter"), replay=_replay),
        Clause("histories-NP2.1", "BFS over run histories, NP2.1", run=_mk("NP2.1"), replay=_replay),
        Clause("histories-NP2.1@" + ODD_NAMES[0], "NP2.1 whose file name has no '.ap.' component", run=_mk("NP2.1", "bin", ODD_NAMES[0]), replay=_replay),
        Clause("histories-NP2.4@" + ODD_NAMES[0], "NP2.4 whose file name has no '.ap.' component", run=_mk("NP2.4", "bin", ODD_NAMES[0]), replay=_replay),
        Clause("histories-NP2.1@" + ODD_NAMES[1], "NP2.1 whose run name contains 'ap'", run=_mk("NP2.1", "bin", ODD_NAMES[1]), replay=_replay),
        Clause("histories-NP2.4@" + ODD_NAMES[1], "NP2.4 whose run name contains 'ap'", run=_mk("NP2.4", "bin", ODD_NAMES[1]), replay=_replay),
        Clause("single-runs", "single conversions with delete_original=True of 60013-sample recordings at calibrated sampling rates, and restricted to a subset of the shanks: the original goes only "
               "when the per-shank files hold every sample of every channel", cases=single_cases, check=single_check),
        Clause("histories-NP1", "NP1 recordings are refused and untouched", run=_mk("NP1"), replay=_replay),
    ],
}
