"""
C08 - probe geometry is a consistent, jointly permuted description of the sites.  Engine E1.
"""
import itertools
import os

import numpy as np

from mc.engine import Clause, Res
from mc import synth

import spikeglx
import neuropixel

KEYS = ("x", "y", "row", "col", "shank", "adc", "sample_shift", "flag", "ind")


def ref_adc(fam, c):
    """ADC group and sampling delay of original channel c (from the hardware description in the docstring of adc_shifts)"""
    if fam in ("NP1", "NPultra"):
        return (c // 24) * 2 + c % 2, ((c % 24) // 2) / 13.0
    return (c // 32) * 2 + c % 2, ((c % 32) // 2) / 16.0


# ------------------------------------------------------------------ grids
def grid_cases(tier, seed):
    return [("NP1", 1), ("NP2", 2), ("NP2", 2.4), ("NPultra", "NPultra")]


def grid_check(case):
    fam, version = case
    dx, x0, dy, y0 = synth.GRID[fam]
    nrow, ncol = {"NP1": (480, 4), "NP2": (640, 2), "NPultra": (48, 8)}[fam]
    rows, cols = [a.ravel().astype(float) for a in np.meshgrid(np.arange(nrow), np.arange(ncol), indexing="ij")]
    v = []
    xy = neuropixel.rc2xy(rows, cols, version=version)
    if not (np.array_equal(xy["x"], cols * dx + x0) and np.array_equal(xy["y"], rows * dy + y0)):
        v.append(("grid:rc2xy", "%s: rc2xy does not follow the grid constants" % fam))
    rc = neuropixel.xy2rc(xy["x"], xy["y"], version=version)
    if not (np.array_equal(rc["row"], rows) and np.array_equal(rc["col"], cols)):
        v.append(("grid:xy2rc(rc2xy)", "%s: xy2rc(rc2xy(row, col)) != (row, col)" % fam))
    back = neuropixel.rc2xy(rc["row"], rc["col"], version=version)
    if not (np.array_equal(back["x"], xy["x"]) and np.array_equal(back["y"], xy["y"])):
        v.append(("grid:rc2xy(xy2rc)", "%s: rc2xy(xy2rc(x, y)) != (x, y)" % fam))
    return Res(v, o=fam, tr=3)


# ------------------------------------------------------------------ canonical dense layouts
def dense_cases(tier, seed):
    return [(1, 1, "NP1"), (2, 1, "NP2"), (2, 4, "NP2"), (2.4, 4, "NP2"), (2.4, 1, "NP2"), ("NPultra", 1, "NPultra")]


def dense_check(case):
    version, nshank, fam = case
    v = []
    h = neuropixel.trace_header(version=version, nshank=nshank)
    dx, x0, dy, y0 = synth.GRID[fam]
    nrow, ncol = {"NP1": (480, 4), "NP2": (640, 2), "NPultra": (48, 8)}[fam]
    n = 384
    for k in ("x", "y", "row", "col", "shank", "ind", "adc", "sample_shift"):
        if k not in h or np.asarray(h[k]).shape != (n,):
            v.append(("dense:keys", "trace_header(%r, %r) lacks key %s of length 384" % (version, nshank, k)))
            return Res(v)
    sites = list(zip(h["shank"].astype(int), h["row"].astype(int), h["col"].astype(int)))
    if len(set(sites)) != n:
        v.append(("dense:distinct", "dense layout (%r, %r) repeats a site" % (version, nshank)))
    if not (np.all((h["row"] >= 0) & (h["row"] < nrow) & (h["col"] >= 0) & (h["col"] < ncol) & (h["row"] == np.floor(h["row"])))
            and np.all((h["shank"] >= 0) & (h["shank"] < max(nshank, 1)))):
        v.append(("dense:on-grid", "dense layout (%r, %r) leaves the site grid" % (version, nshank)))
    if not (np.array_equal(h["x"], h["col"] * dx + x0) and np.array_equal(h["y"], h["row"] * dy + y0)):
        v.append(("dense:xy", "dense layout x/y do not match row/col"))
    if fam == "NP1" and not np.all((h["col"] - h["row"]) % 2 == 0):
        v.append(("dense:checkerboard", "NP1 dense layout is not on the checkerboard"))
    if nshank == 4 and sorted(set(h["shank"].astype(int))) != [0, 1, 2, 3]:
        v.append(("dense:shanks", "4-shank layout does not use 4 shanks"))
    if not np.array_equal(h["ind"], np.arange(n)):
        v.append(("dense:ind", "ind is not 0..383"))
    ref = [ref_adc(fam, c) for c in range(n)]
    if not (np.array_equal(h["adc"], [a for a, _ in ref]) and np.allclose(h["sample_shift"], [s for _, s in ref], rtol=0, atol=1e-12)):
        v.append(("dense:adc", "adc / sample_shift are not the hardware function of the channel number"))
    # each ADC serves its channels at distinct, evenly spaced delays
    m, cyc = (12, 13) if fam != "NP2" else (16, 16)
    for a in np.unique(h["adc"]):
        sh = np.sort(h["sample_shift"][h["adc"] == a])
        if sh.size != m or not np.allclose(sh, np.arange(m) / cyc, rtol=0, atol=1e-12):
            v.append(("dense:adc-spacing", "ADC %r serves delays %r, expected %d evenly spaced by 1/%d" % (a, sh.tolist(), m, cyc)))
            break
    return Res(v, o=fam, tr=1)


# ------------------------------------------------------------------ site selections in both encodings
SUBGRID = {
    "NP1": [(0, r, c) for r in range(4) for c in ((0, 2) if r % 2 == 0 else (1, 3))] +
           [(0, r, c) for r in (100, 101, 478, 479) for c in ((0, 2) if r % 2 == 0 else (1, 3))],
    "NP2.1": [(0, r, c) for r in (0, 1, 2, 3, 300, 301, 638, 639) for c in (0, 1)],
    "NP2.4": [(s, r, c) for s in (0, 1, 2, 3) for r in (0, 600) for c in (0, 1)],
    "NP2.4-low": [(s, r, c) for s in (0, 1, 2, 3) for r in (47, 48) for c in (0, 1)],
    "NPultra": [(0, r, c) for r in (0, 47) for c in range(8)],
}
KIND_OF = {"NP1": ("3B2", "3A", "3B1"), "NP2.1": ("NP2.1", "NP2.1b"), "NP2.4": ("NP2.4", "NP2.4b"), "NP2.4-low": ("NP2.4b", "NP2.4"), "NPultra": ("NPultra",)}


def select_cases(tier, seed):
    k = 3 if tier == "quick" else 4
    out = []
    for layout in ("NP1", "NP2.1", "NP2.4", "NP2.4-low", "NPultra"):
        n = len(SUBGRID[layout])
        firsts = range(n)
        for a in firsts:
            out.append((layout, k, a))
    return out


def _geom(d, kind, sites, enc, sort, extra=None, name="g"):
    items = synth.meta_items(kind, sites, 10, encoding=enc, extra=extra)
    f = os.path.join(d, "%s_g0_t0.imec0.ap.meta" % name)
    with open(f, "w") as fh:
        fh.write(synth.meta_text(items))
    md = spikeglx.read_meta_data(f)
    return spikeglx.geometry_from_meta(md, return_index=True, sort=sort)


def _check_geometry(kind, sites, th_s, ind_s, th_u, ind_u, bad, where):
    fam = synth.family(kind)
    n = len(sites)
    for k in KEYS:
        if k not in th_u or np.asarray(th_u[k]).shape != (n,) or k not in th_s or np.asarray(th_s[k]).shape != (n,):
            bad("keys", "%s: key %s missing or not one value per site" % (where, k))
            return
    # unsorted = on-disk order, each site once
    got_u = [(int(th_u["shank"][i]), int(th_u["row"][i]), int(th_u["col"][i])) for i in range(n)]
    if got_u != [tuple(s) for s in sites]:
        bad("unsorted-sites", "%s: unsorted geometry %r is not the on-disk site list %r" % (where, got_u, sites))
        return
    if not np.array_equal(ind_u, np.arange(n)) or not np.array_equal(th_u["ind"], np.arange(n)):
        bad("unsorted-ind", "%s: unsorted index is not the identity" % where)
    xy = [synth.site_xy(kind, s) for s in sites]
    if not (np.array_equal(th_u["x"], [a for a, _ in xy]) and np.array_equal(th_u["y"], [b for _, b in xy])):
        bad("xy", "%s: x/y %r are not the grid positions %r of the sites" % (where, list(zip(th_u["x"], th_u["y"])), xy))
    ref = [ref_adc(fam, c) for c in range(n)]
    if not (np.array_equal(th_u["adc"], [a for a, _ in ref]) and np.allclose(th_u["sample_shift"], [s for _, s in ref], rtol=0, atol=1e-12)):
        bad("adc", "%s: adc/sample_shift are not the function of the channel number" % where)
    # sorted: a true permutation ordered by shank, row, descending column, moving every attribute together
    if sorted(np.asarray(ind_s).tolist()) != list(range(n)):
        bad("sorted-permutation", "%s: sort index %r is not a permutation" % (where, np.asarray(ind_s).tolist()))
        return
    keys = [(th_s["shank"][i], th_s["row"][i], -th_s["col"][i]) for i in range(n)]
    if keys != sorted(keys):
        bad("sorted-order", "%s: sorted geometry is not ordered by shank,row,-col: %r" % (where, keys))
    exp_order = synth.ref_sort_order(sites)
    if np.asarray(ind_s).tolist() != exp_order:
        bad("sorted-index", "%s: sort index %r != %r" % (where, np.asarray(ind_s).tolist(), exp_order))
    for k in KEYS:
        if not np.array_equal(np.asarray(th_s[k]), np.asarray(th_u[k])[np.asarray(ind_s)]):
            bad("joint-permutation:%s" % k, "%s: attribute %s is not moved with the sites: sorted %r, unsorted[ind] %r"
                % (where, k, np.asarray(th_s[k]).tolist(), np.asarray(th_u[k])[np.asarray(ind_s)].tolist()))


def select_check(case):
    layout, k, first = case
    d = synth.proc_scratch()
    grid = SUBGRID[layout]
    v = []
    seen = set()

    def bad(key, msg):
        if key not in seen:
            seen.add(key)
            v.append((key, msg))
    ntr = 0
    others = [i for i in range(len(grid)) if i != first]
    kinds = KIND_OF[layout]
    for ci, rest in enumerate(itertools.permutations(others, k - 1)):
        sites = [grid[first]] + [grid[i] for i in rest]
        kind = kinds[ci % len(kinds)]
        res = {}
        encs = ("shank", "geom") if layout != "NPultra" else ("shank",)
        for enc in encs:
            try:
                th_s, ind_s = _geom(d, kind, sites, enc, True)
                th_u, ind_u = _geom(d, kind, sites, enc, False)
            except Exception as e:
                bad("exc:%s" % type(e).__name__, "%s %s %r: %s: %s" % (kind, enc, sites, type(e).__name__, e))
                continue
            ntr += 2
            _check_geometry(kind, sites, th_s, ind_s, th_u, ind_u, bad, "%s/%s %r" % (kind, enc, sites))
            res[enc] = (th_s, th_u)
        if len(res) == 2:
            for which in (0, 1):
                a, b = res["shank"][which], res["geom"][which]
                for key in KEYS:
                    if not np.array_equal(np.asarray(a[key]), np.asarray(b[key])):
                        bad("encodings:%s" % key, "%s %r: shank-map and geometry-map files give different %s: %r vs %r"
                            % (kind, sites, key, np.asarray(a[key]).tolist(), np.asarray(b[key]).tolist()))
        # a split shank's geometry is the restriction of its parent's
        if layout.startswith("NP2.4") and "shank" in res:
            parent_s, parent_u = res["shank"]
            for sh in sorted({s[0] for s in sites}):
                split = {}
                for sort, parent in ((True, parent_s), (False, parent_u)):
                    try:
                        th, ind = _geom(d, kind, sites, "shank", sort, extra=[("NP2.4_shank", "%d" % sh)], name="s")
                    except Exception as e:
                        bad("split:exc", "%s: %s" % (type(e).__name__, e))
                        continue
                    ntr += 1
                    sel = np.flatnonzero(parent["shank"] == sh)
                    for key in KEYS:
                        if key == "ind":
                            continue
                        if not np.array_equal(np.asarray(th[key]), np.asarray(parent[key])[sel]):
                            bad("split:%s" % key, "%s %r shank %d sort=%s: split geometry %s=%r is not the parent's restriction %r"
                                % (kind, sites, sh, sort, key, np.asarray(th[key]).tolist(), np.asarray(parent[key])[sel].tolist()))
                    split[sort] = (th, ind)
                # the split geometry is itself a geometry: each recorded site once, sorting moves every attribute - the original index too - together
                if len(split) == 2:
                    (th_s, ind_s), (th_u, ind_u) = split[True], split[False]
                    n = np.asarray(th_u["shank"]).size
                    if sorted(np.asarray(th_u["ind"]).tolist()) != list(range(n)) or sorted(np.asarray(th_s["ind"]).tolist()) != list(range(n)):
                        bad("split:ind-range", "%s %r shank %d: the original index of the split geometry (unsorted %r, sorted %r) does not list each of its %d recorded sites once"
                            % (kind, sites, sh, np.asarray(th_u["ind"]).tolist(), np.asarray(th_s["ind"]).tolist(), n))
                    elif sorted(np.asarray(ind_s).tolist()) != list(range(n)):
                        bad("split:sorted-permutation", "%s %r shank %d: sort index %r is not a permutation" % (kind, sites, sh, np.asarray(ind_s).tolist()))
                    else:
                        for key in KEYS:
                            if not np.array_equal(np.asarray(th_s[key]), np.asarray(th_u[key])[np.asarray(ind_s)]):
                                bad("split:joint-permutation:%s" % key, "%s %r shank %d: attribute %s of the split geometry is not moved with the sites: sorted %r, unsorted[ind] %r"
                                    % (kind, sites, sh, key, np.asarray(th_s[key]).tolist(), np.asarray(th_u[key])[np.asarray(ind_s)].tolist()))
        # the library's own restriction function, for every shank of the probe - those without a site too
        if "shank" in res:
            for sort_i, parent in enumerate(res["shank"]):
                for sh in range(4):
                    try:
                        hs = neuropixel.split_trace_header({kk: np.array(vv) for kk, vv in parent.items()}, shank=sh)
                    except Exception as e:
                        bad("restrict:exc", "split_trace_header(shank=%d) on %s %r: %s: %s" % (sh, kind, sites, type(e).__name__, e))
                        continue
                    ntr += 1
                    sel = np.flatnonzero(np.asarray(parent["shank"]) == sh)
                    for key in KEYS:
                        if key not in hs or not np.array_equal(np.asarray(hs[key]), np.asarray(parent[key])[sel]):
                            bad("restrict:%s" % key, "split_trace_header(shank=%d) on %s %r (shanks present %r): %s=%r is not the restriction %r"
                                % (sh, kind, sites, sorted(set(np.asarray(parent["shank"]).astype(int).tolist())), key,
                                   np.asarray(hs.get(key, [])).tolist()[:8], np.asarray(parent[key])[sel].tolist()[:8]))
                            break
    return Res(v, o=(layout,), tr=ntr)


# ------------------------------------------------------------------ shank files written by the real converter, opened through the Reader
SPLIT_ASSIGN = ([0, 1, 2, 3, 3, 0], [1, 3, 3, 1, 1, 3], [0, 0, 1, 1, 2, 2, 3, 3, 0, 1], [2, 2, 2, 0], [3, 1, 3, 1, 3, 1, 3, 3, 3, 3, 3, 3])


def splitfile_cases(tier, seed):
    return [(i, enc) for i in range(len(SPLIT_ASSIGN)) for enc in ("shank", "geom")]


def splitfile_check(case):
    """the geometry the READER reports for a per-shank file (fewer saved channels than table entries) is the parent's restricted to that shank"""
    from mc import np2
    ai, enc = case
    assign = SPLIT_ASSIGN[ai]
    root = os.path.join(synth.proc_scratch(), "c08split")
    np2.clean(root)
    sites = np2.sites_for(assign)
    ns = 700
    data = np2.content(ns, len(sites) + 1, "ramp")
    folder = os.path.join(root, np2.LABEL)
    items = synth.meta_items("NP2.4", sites, ns, encoding=enc)
    ap = synth.write_recording(folder, np2.STEM + ".ap", data, items)
    v = []
    seen = set()

    def bad(key, msg):
        if key not in seen:
            seen.add(key)
            v.append((key, msg))
    ntr = 0
    try:
        parents = {}
        for sort in (True, False):
            sr = spikeglx.Reader(ap, sort=sort)
            parents[sort] = {k: np.array(sr.geometry[k]) for k in KEYS if k in sr.geometry}
            sr.close()
        st, conv = np2.convert(ap, nwindow=600, compress=False)
        np2.release(conv)
        if st != 1:
            bad("splitfile:status", "%r: conversion returned %r" % (assign, st))
        for sh in sorted(set(assign)):
            for band in ("ap", "lf"):
                f = os.path.join(np2.shank_folder(root, sh), "%s.%s.bin" % (np2.STEM, band))
                for sort in (True, False):
                    sr = spikeglx.Reader(f, sort=sort)
                    ntr += 1
                    g = sr.geometry
                    nchan = sr.nc - sr.nsync
                    parent = parents[sort]
                    sel = np.flatnonzero(parent["shank"] == sh)
                    for key in KEYS:
                        if key == "ind":
                            continue
                        got = np.asarray(g[key])
                        if got.shape != (nchan,):
                            bad("splitfile:entries", "%r (%s map) shank %d %s file sort=%s: %d recorded channels but geometry lists %d values for %r"
                                % (assign, enc, sh, band, sort, nchan, got.size, key))
                        elif not np.array_equal(got, parent[key][sel]):
                            bad("splitfile:%s" % key, "%r (%s map) shank %d %s file sort=%s: reader geometry %s=%r is not the parent's restriction %r"
                                % (assign, enc, sh, band, sort, key, got.tolist(), parent[key][sel].tolist()))
                    if "ind" in g and sorted(np.asarray(g["ind"]).tolist()) != list(range(nchan)):
                        bad("splitfile:ind-range", "%r (%s map) shank %d %s file sort=%s: the original index %r does not list each of the %d recorded sites once"
                            % (assign, enc, sh, band, sort, np.asarray(g["ind"]).tolist(), nchan))
                    sr.close()
    except Exception as e:
        bad("splitfile:exc:%s" % type(e).__name__, "%r (%s map): %s: %s" % (assign, enc, type(e).__name__, e))
    np2.clean(root)
    return Res(v, o=(ai, enc), tr=ntr)


# ------------------------------------------------------------------ structured 384-site layouts
def full_cases(tier, seed):
    out = []
    for kind, nshank in (("3B2", 1), ("NP2.1", 1), ("NP2.4", 4), ("NPultra", 1), ("NP2.4b", 4)):
        step = 1 if tier == "thorough" else 7
        for rot in list(range(0, 384, step)) + ["rev", "stripe"]:
            out.append((kind, nshank, rot))
    return out


def full_check(case):
    kind, nshank, rot = case
    fam = synth.family(kind)
    version = {"NP1": 1, "NP2": 2, "NPultra": "NPultra"}[fam]
    h = neuropixel.dense_layout(version=version, nshank=nshank)
    base = list(zip(h["shank"].astype(int).tolist(), h["row"].astype(int).tolist(), h["col"].astype(int).tolist()))
    if rot == "rev":
        sites = base[::-1]
    elif rot == "stripe":
        sites = base[0::2] + base[1::2]
    else:
        sites = base[rot:] + base[:rot]
    d = synth.proc_scratch()
    v = []
    seen = set()

    def bad(key, msg):
        if key not in seen:
            seen.add(key)
            v.append((key, msg[:600]))
    encs = ("shank", "geom") if fam != "NPultra" else ("shank",)
    res = {}
    for enc in encs:
        th_s, ind_s = _geom(d, kind, sites, enc, True)
        th_u, ind_u = _geom(d, kind, sites, enc, False)
        _check_geometry(kind, sites, th_s, ind_s, th_u, ind_u, bad, "%s/%s rot=%r" % (kind, enc, rot))
        res[enc] = th_s
    if len(res) == 2:
        for key in KEYS:
            if not np.array_equal(np.asarray(res["shank"][key]), np.asarray(res["geom"][key])):
                bad("encodings:%s" % key, "%s rot=%r: encodings disagree on %s" % (kind, rot, key))
    return Res(v, o=(kind,), tr=2 * len(encs))


CHECK = {
    "property": "C08",
    "rule": "selections: every ordered selection of k sites from a 16-site sub-grid per layout (one case per first site, the check loops over the rest), "
            "each in both encodings, sorted and unsorted; non-trivial = all",
    "assumptions": [
        "sub-grids: 16 sites per layout spanning both ends of the probe and all columns/shanks; k=3 (quick) / 4 (thorough)",
        "the ADC oracle is the hardware description quoted in the docstring of adc_shifts, written independently",
        "saved-channel subsets that are not a prefix of the acquired channels are not covered: SpikeGLX's table layout for them is not "
        "documented in the repository's fixtures and no trustworthy oracle can be anchored",
        "NPultra has no shipped geometry-map fixture: it is covered through the shank-map encoding only",
    ],
    "clauses": [
        Clause("grids", "row/col <-> x/y on whole probe grids", cases=grid_cases, check=grid_check),
        Clause("dense", "canonical dense layouts", cases=dense_cases, check=dense_check),
        Clause("selections", "all ordered k-site selections of a 16-site sub-grid, both encodings, sorted/unsorted, split shanks", cases=select_cases, check=select_check),
        Clause("split-files", "per-shank files written by the converter, opened through the Reader (both bands, both encodings, sorted / unsorted)", cases=splitfile_cases, check=splitfile_check),
        Clause("folder-neighbours", "the geometry comes from the recording's own metadata: UUID dataset names next to another acquisition's UUID-less metadata, a data file symlinked into a folder "
               "holding another acquisition's metadata, band names and dots in the folder name (shared with C01)",
               cases=lambda tier, seed: __import__("checks.c01", fromlist=["x"]).folder_cases(tier, seed), check=lambda case: __import__("checks.c01", fromlist=["x"]).folder_check(case)),
        Clause("full-probe", "384-site layouts in rotated / reversed / striped channel orders", cases=full_cases, check=full_check),
    ],
}
