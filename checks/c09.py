"""
C09 - metadata parsing, derived acquisition parameters and writing round-trip.  Engine E1.
"""
import itertools
import os
import re

import numpy as np

from mc.engine import Clause, Res
from mc import synth

import spikeglx

SIGMA = ["0", "7", ".", ",", "a", "=", "~", "-", " "]

RE_SCALAR = re.compile(r"^(\d+(\.\d*)?|\.\d+)$")
RE_INTLIST = re.compile(r"^\d+(,\d+)+$")
RE_NUMLOOK = re.compile(r"^[0-9,.]*$")


def classify(v):
    """what the property's domain says about a value string"""
    if v == "" or not RE_NUMLOOK.match(v) or v.count(".") >= 2:
        return "string"
    if RE_SCALAR.match(v):
        return "scalar"
    if RE_INTLIST.match(v):
        return "intlist"
    return "outside"          # numeric-looking but neither a scalar nor an integer list ('.', '0,', ',7', '0.5,7'): not in the domain


def _eq(a, b):
    if set(a.keys()) != set(b.keys()):
        return False
    for k in a:
        x, y = a[k], b[k]
        # "an equal dictionary": Python equality (an integer-valued scalar may come back as int or float; a string never equals a number, a list never a scalar)
        if isinstance(x, bool) != isinstance(y, bool) or x != y:
            return False
    return True


def _num_ok(got, val):
    """got is a numeric scalar worth the decimal string val (exactly, or as its nearest double)"""
    from fractions import Fraction
    if isinstance(got, bool) or not isinstance(got, (int, float, np.integer, np.floating)):
        return False
    return got == float(val) or Fraction(got) == Fraction(val)


def _roundtrip(text, d, tag):
    """parse(write(parse(f))) == parse(f); returns a list of violations"""
    v = []
    f1 = os.path.join(d, "a.meta")
    f2 = os.path.join(d, "b.meta")
    with open(f1, "w") as f:
        f.write(text)
    try:
        m1 = spikeglx.read_meta_data(f1)
    except Exception as e:
        return [("parse:exc:%s" % tag, "parsing %r raised %s: %s" % (text, type(e).__name__, e))], None
    try:
        spikeglx.write_meta_data(m1, f2)
        m2 = spikeglx.read_meta_data(f2)
    except Exception as e:
        return [("write:exc:%s" % tag, "writing/re-parsing %r raised %s: %s" % (text, type(e).__name__, e))], m1
    if not _eq(dict(m1), dict(m2)):
        diff = {k: (m1.get(k), m2.get(k)) for k in set(m1) | set(m2) if m1.get(k) != m2.get(k)}
        v.append(("roundtrip:%s" % tag, "file %r: parse -> %r, after write and parse -> differs on %r (written: %r)"
                  % (text, {k: m1[k] for k in diff}, diff, open(f2).read())))
    # the file that is named is the file that is written and parsed - whatever it is called (an update written under a temporary name before
    # being renamed, an upper-case extension) and whatever else lies next to it (here: a.meta, holding the text above, and a decoy of the same stem)
    try:
        for name in ("a.meta.tmp", "a.META", "a.ap.tmp"):
            f3 = os.path.join(d, name)
            decoy = os.path.join(d, os.path.splitext(name)[0] + ".meta")
            if not os.path.exists(decoy):
                with open(decoy, "w") as f:
                    f.write("typeThis=decoy\nnSavedChans=3\n")
            m1b = dict(m1)
            m1b["verifMarker"] = "written under %s" % name
            spikeglx.write_meta_data(m1b, f3)
            m3 = spikeglx.read_meta_data(f3)
            if not _eq(dict(m3), dict(spikeglx.read_meta_data(f3))) or m3.get("verifMarker") != m1b["verifMarker"] or m3.get("typeThis") == "decoy":
                v.append(("roundtrip:file-name:%s" % tag, "meta data written to %s and parsed from %s: the parse returns %r (another file of the folder?)"
                          % (name, name, {k: m3.get(k) for k in ("verifMarker", "typeThis")})))
                break
    except Exception as e:
        v.append(("roundtrip:file-name:exc:%s" % tag, "writing / parsing a metadata file not called *.meta raised %s: %s" % (type(e).__name__, e)))
    return v, m1


# ------------------------------------------------------------------ grammar, exhaustively
def grammar_cases(tier, seed):
    L = 5 if tier == "quick" else 6
    # one case = a prefix of length <= 2; the check loops over all completions (keeps the case list small)
    cases = [""]
    for n in (1, 2):
        cases += ["".join(t) for t in itertools.product(SIGMA, repeat=n)]
    return [(p, L) for p in cases]


def grammar_check(case):
    prefix, L = case
    d = synth.proc_scratch()
    v = []
    seen = set()
    n = 0
    nd = 0
    if len(prefix) < 2:
        values = [prefix]            # shorter values are their own case
    else:
        values = [prefix + "".join(t) for k in range(0, L - 1) for t in itertools.product(SIGMA, repeat=k)]
    for val in values:
        cls = classify(val)
        n += 1
        if cls == "outside":
            continue
        nd += 1
        for form, text in (("plain", "k=%s\n" % val), ("tilde", "~k=%s\n" % val),
                           ("two-lines", "first=1\n~k=%s\nlast=a b\n" % val)):
            vv, m1 = _roundtrip(text, d, cls)
            for key, msg in vv:
                if key not in seen:
                    seen.add(key)
                    v.append((key, msg))
            if m1 is not None and not vv:
                # the parse itself: string stays a string, scalar a float, list a list of floats
                got = m1.get("k")
                if cls == "string" and got != val:
                    key = "parse:string"
                elif cls == "scalar" and not _num_ok(got, val):
                    key = "parse:scalar"
                elif cls == "intlist" and got != [float(x) for x in val.split(",")]:
                    key = "parse:intlist"
                else:
                    key = None
                if key and key not in seen:
                    seen.add(key)
                    v.append((key, "value %r (%s) parsed as %r" % (val, cls, got)))
    return Res(v, o=(len(prefix), nd > 0), nt=nd > 0, tr=3 * 3 * nd)


# ------------------------------------------------------------------ scalar formats
def scalar_cases(tier, seed):
    mant = ["1", "7", "12", "105", "999999", "123456", "5", "25", "3000024", "299997579", "10", "9007199254740993"]
    return [(m, e) for m in mant for e in range(-10 if tier == "quick" else -14, 23)]


def _positional(mant, e):
    """the decimal number mant x 10^e written in fixed notation, as SpikeGLX does"""
    if e >= 0:
        return mant + "0" * e
    if -e < len(mant):
        return mant[:e] + "." + mant[e:]
    return "0." + "0" * (-e - len(mant)) + mant


def scalar_check(case):
    mant, e = case
    val = _positional(mant, e)
    d = synth.proc_scratch()
    small = float(val) < 1e-4
    vv, m1 = _roundtrip("imSampRate=%s\nfileTimeSecs=%s\n" % (val, val), d, "scalar:below-1e-4" if small else "scalar")
    if not vv and not _num_ok(m1["imSampRate"], val):
        vv.append(("parse:scalar", "%r parsed as %r" % (val, m1["imSampRate"])))
    return Res(vv, o=(small,), tr=3)


# ------------------------------------------------------------------ integer lists with elements of every magnitude
ELEMS = ["0", "7", "384", "99999", "999999", "1000000", "1000001", "12345678", "2147483648", "30000000000", "123456789012345", "9007199254740992"]


def intlist_cases(tier, seed):
    out = [(a, b) for a in ELEMS for b in ELEMS]
    return out


def intlist_check(case):
    a, b = case
    d = synth.proc_scratch()
    seen = {}
    ntr = 0
    for val in ("%s,%s" % (a, b), "%s,%s,%s" % (a, b, a), "0,%s,%s,1" % (b, a)):
        big = any(int(x) >= 1000000 for x in val.split(","))
        vv, m1 = _roundtrip("snsApLfSy=384,0,1\nchunkBounds=%s\n~list=%s\n" % (val, val), d, "intlist:large-elements" if big else "intlist")
        ntr += 3
        for k, m in vv:
            seen.setdefault(k, m)
        if m1 is not None and m1.get("chunkBounds") != [float(x) for x in val.split(",")]:
            seen.setdefault("parse:intlist", "%r parsed as %r" % (val, m1.get("chunkBounds")))
    return Res(list(seen.items()), o=(len(a) > 6 or len(b) > 6,), tr=ntr)


# ------------------------------------------------------------------ derived quantities
def derived_cases(tier, seed):
    out = []
    kinds = ["3A", "3B1", "3B2", "NP2.1", "NP2.1b", "NP2.4", "NP2.4b", "NPultra"]
    for kind in kinds:
        for stream in ("ap", "lf"):
            for nsaved in (2, 3, 4, 5, 6, 277, 385):
                out.append(("imec", kind, stream, nsaved))
            out.append(("imec", kind, stream, -5))          # five channels saved without the sync word
    for mn, ma, xa, dw in itertools.product((0, 1, 2), (0, 1, 2), (0, 1, 2), (0, 1, 2, 3)):      # up to three 16-bit digital words
        if mn + ma + xa + dw:
            out.append(("nidq", mn, ma, xa, dw))
    return out


# ------------------------------------------------------------------ the same site / gain table read again with other acquisition parameters
def dseq_cases(tier, seed):
    return [(kind, stream, nsaved) for kind in ("3A", "3B1", "3B2", "NP2.1", "NP2.4", "NPultra") for stream in ("ap", "lf") for nsaved in (5, 385)]


def dseq_check(case):
    """several metadata in ONE process that share their IMRO / site tables and differ in full-scale range, max integer, rate or duration: each is read for itself"""
    kind, stream, nsaved = case
    d = synth.proc_scratch()
    k = nsaved - 1
    fam = synth.family(kind)
    if fam == "NP1":
        sites = [(0, i // 2, (2, 0)[i % 2] if (i // 2) % 2 == 0 else (3, 1)[i % 2]) for i in range(k)]
    elif fam == "NP2":
        sites = [((i // 48) % 4 if kind.startswith("NP2.4") else 0, i // 2, i % 2) for i in range(k)]
    else:
        sites = [(0, i // 8, i % 8) for i in range(k)]
    gains = [(synth.GAINS[(j + 1) % 8], synth.GAINS[(j + 5) % 8]) for j in range(k)]
    v = []
    ntr = 0
    ranges = [r for r in RANGES if not (fam == "NP2" and r[1] is None)]
    seq = [(r, FSS[i % 2] if stream == "ap" else FSS[2 + i % 2], NSS[i % len(NSS)]) for i, r in enumerate(ranges + ranges[::-1] + ranges[1::2])]
    for si, ((vr, mi), fs, ns) in enumerate(seq):
        # every other file lists more channels in its IMRO table than it saves (the first channels only were saved)
        items = synth.meta_items(kind, sites, ns, stream=stream, fs=fs, gains=gains, vrange=vr, maxint=mi, imro_entries=(k + 7 if si % 2 else None))
        fmeta = os.path.join(d, "seq_g0_t0.imec0.%s.meta" % stream)
        with open(fmeta, "w") as f:
            f.write(synth.meta_text(items))
        try:
            sr = spikeglx.Reader(fmeta, sort=False)
            ntr += 1
            ref = np.array(synth.ref_s2v(kind, stream, k, 1, gains=gains, vrange=vr, maxint=mi))
            s2v = np.asarray(sr.sample2volts, dtype=float)
            if s2v.shape != ref.shape or not np.allclose(s2v, ref, rtol=1e-6, atol=0):
                v.append(("s2v:call-sequence", "%s %s nsaved=%d range=%r maxint=%r read after other metadata with the same gain table: volts/bit %r != range/maxint/gain %r"
                          % (kind, stream, nsaved, vr, mi, s2v[:3].tolist(), ref[:3].tolist())))
                break
            if abs(float(sr.fs) - fs) > 1e-9 or sr.ns != ns:
                v.append(("fs-ns:call-sequence", "%s %s: fs=%r ns=%r read after other metadata, the file says %r / %r" % (kind, stream, sr.fs, sr.ns, fs, ns)))
                break
        except Exception as e:
            v.append(("derived-sequence:exc:%s" % type(e).__name__, "%s %s range=%r maxint=%r: %s: %s" % (kind, stream, vr, mi, type(e).__name__, e)))
            break
    return Res(v, o=(kind, stream), tr=ntr)


FSS = [30000, 29999.757983, 2500, 2499.98, 30003.0003]
RANGES = [(None, None), (0.5, 8192), (0.62, 2048), (0.6, 512), (0.62, 8192)]
NSS = [1, 1000, 12345678, 108000123]


def derived_check(case):
    d = synth.proc_scratch()
    v = []
    seen = set()

    def bad(key, msg):
        if key not in seen:
            seen.add(key)
            v.append((key, msg))
    ntr = 0
    if case[0] == "imec":
        _, kind, stream, nsaved = case
        nsync = 1
        if nsaved < 0:
            nsaved, nsync = -nsaved, 0
        k = nsaved - nsync
        fam = synth.family(kind)
        if fam == "NP1":
            sites = [(0, i // 2, (2, 0)[i % 2] if (i // 2) % 2 == 0 else (3, 1)[i % 2]) for i in range(k)]
        elif fam == "NP2":
            sites = [((i // 48) % 4 if kind.startswith("NP2.4") else 0, i // 2, i % 2) for i in range(k)]
        else:
            sites = [(0, i // 8, i % 8) for i in range(k)]
        pairs = list(itertools.product(synth.GAINS, synth.GAINS)) if fam != "NP2" else [(500, 250)]
        for pi, (gap, glf) in enumerate(pairs):
            # a non-uniform table: channel j gets gains rotated by j, the probed pair sits on channel `pos`
            pos = pi % k
            gains = [(synth.GAINS[(j + 1) % 8], synth.GAINS[(j + 5) % 8]) for j in range(k)]
            gains[pos] = (gap, glf)
            fs = FSS[pi % 4] if stream == "ap" else FSS[2 + pi % 2]
            vr, mi = RANGES[pi % len(RANGES)]
            if fam == "NP2" and mi is None:
                vr, mi = 0.5, 8192
            ns = NSS[pi % len(NSS)]
            items = synth.meta_items(kind, sites, ns, stream=stream, fs=fs, gains=gains, vrange=vr, maxint=mi, nsync=nsync,
                                     encoding="geom" if (pi % 2 and fam != "NPultra") else "shank")
            if pi % 3 == 1:
                # the duration as acquisition software writes it: a few decimals only (the product with the rate is then off an integer by up to 0.015 sample)
                items = [(a, ("%.6f" % (ns / fs)) if a == "fileTimeSecs" else b) for a, b in items]
            fmeta = os.path.join(d, "drv_g0_t0.imec0.%s.meta" % stream)
            with open(fmeta, "w") as f:
                f.write(synth.meta_text(items))
            try:
                sr = spikeglx.Reader(fmeta, sort=False)          # on-disk order: the statement does not say in which order a sorted reader lists the factors
                ntr += 1
                ref = np.array(synth.ref_s2v(kind, stream, k, nsync, gains=gains, vrange=vr, maxint=mi))
                s2v = np.asarray(sr.sample2volts, dtype=float)
                if s2v.shape != ref.shape or not np.allclose(s2v, ref, rtol=1e-6, atol=0):
                    j = int(np.argmax(np.abs(s2v / ref - 1))) if s2v.shape == ref.shape else -1
                    bad("s2v:%s" % stream, "%s %s nsaved=%d gains(ch %d)=%r range=%r maxint=%r: volts/bit %r != range/maxint/gain %r (channel %d)"
                        % (kind, stream, nsaved, pos, (gap, glf), vr, mi, s2v[j] if j >= 0 else s2v.shape, ref[j] if j >= 0 else ref.shape, j))
                if s2v.shape == ref.shape and nsync and s2v[-1] != 1:
                    bad("s2v:sync", "sync gain is %r" % s2v[-1])
                if sr.version != synth.VERSION_NAME[kind]:
                    bad("version", "%s reported as %r" % (kind, sr.version))
                if sr.type != stream:
                    bad("type", "stream %s reported as %r" % (stream, sr.type))
                if sr.nc != nsaved or sr.nsync != nsync:
                    bad("counts", "nc=%r nsync=%r for %d saved channels with %d sync" % (sr.nc, sr.nsync, nsaved, nsync))
                if float(sr.fs) != float(fs):
                    bad("fs", "fs=%r, metadata says %r" % (sr.fs, fs))
                if sr.ns != ns:
                    bad("ns", "ns=%r for fileTimeSecs=%s at %r Hz (%d samples)" % (sr.ns, synth.fixed(ns / fs), fs, ns))
                mv = {"NP1": 1, "NP2": 2, "NPultra": "NPultra"}[fam]
                if kind.startswith("NP2.4"):
                    mv = 2.4
                if sr.major_version != mv:
                    bad("major_version", "%s major version %r" % (kind, sr.major_version))
            except Exception as e:
                bad("derived:exc:%s" % type(e).__name__, "%s %s nsaved=%d: %s: %s" % (kind, stream, nsaved, type(e).__name__, e))
    else:
        _, mn, ma, xa, dw = case
        for gi, (gmn, gma) in enumerate(((200, 1), (1, 1), (50, 10), (1000, 500))):
            fs = FSS[4] if gi % 2 == 0 else 25000
            ns = NSS[gi % 4]
            vr = (5, 2, 10, 1)[gi]
            items = synth.nidq_items(ns, mn=mn, ma=ma, xa=xa, dw=dw, fs=fs, mngain=gmn, magain=gma, vrange=vr)
            if gi % 2 == 0:
                items = [(a, ("%.6f" % (ns / fs)) if a == "fileTimeSecs" else b) for a, b in items]      # duration with a few decimals
            fmeta = os.path.join(d, "drv_g0_t0.nidq.meta")
            with open(fmeta, "w") as f:
                f.write(synth.meta_text(items))
            try:
                sr = spikeglx.Reader(fmeta)
                ntr += 1
                i2v = vr / 32768
                ref = np.array([i2v / gmn] * mn + [i2v / gma] * ma + [i2v] * xa + [1.0] * dw)
                s2v = np.asarray(sr.sample2volts, dtype=float)
                if s2v.shape != ref.shape or not np.allclose(s2v, ref, rtol=1e-9, atol=0):
                    bad("s2v:nidq", "MnMaXaDw=%r gains=%r: volts/bit %r != %r" % ((mn, ma, xa, dw), (gmn, gma), s2v.tolist(), ref.tolist()))
                if sr.type != "nidq" or sr.version is not None:
                    bad("type:nidq", "type %r version %r" % (sr.type, sr.version))
                if sr.nc != mn + ma + xa + dw or sr.nsync != dw:
                    bad("counts:nidq", "nc=%r nsync=%r for MnMaXaDw=%r" % (sr.nc, sr.nsync, (mn, ma, xa, dw)))
                if float(sr.fs) != float(fs) or sr.ns != ns:
                    bad("fs/ns:nidq", "fs=%r ns=%r, expected %r %r" % (sr.fs, sr.ns, fs, ns))
            except Exception as e:
                bad("derived:nidq:exc:%s" % type(e).__name__, "MnMaXaDw=%r: %s: %s" % ((mn, ma, xa, dw), type(e).__name__, e))
    return Res(v, o=case[:3], tr=ntr)


# ------------------------------------------------------------------ parse, use through the Reader, write, parse
def used_cases(tier, seed):
    return [("imec", k, st) for k in ("3A", "3B2", "NP2.1", "NP2.4b", "NPultra") for st in ("ap", "lf")] + [("nidq", 1, 1), ("nidq", 0, 2), ("nidq", 2, 0)]


def used_check(case):
    d = synth.proc_scratch()
    typ, a, b = case
    if typ == "imec":
        fam = synth.family(a)
        sites = [(0, i // 2, (2, 0)[i % 2] if (i // 2) % 2 == 0 else (3, 1)[i % 2]) for i in range(4)] if fam == "NP1" else \
            ([(0, i // 2, i % 2) for i in range(4)] if fam == "NP2" else [(0, 0, i) for i in range(4)])
        items = synth.meta_items(a, sites, 1000, stream=b)
        f1 = os.path.join(d, "use_g0_t0.imec0.%s.meta" % b)
        f2 = os.path.join(d, "use2_g0_t0.imec0.%s.meta" % b)
    else:
        items = synth.nidq_items(1000, mn=a, ma=b, xa=1, dw=1, mngain=200, magain=10)
        f1 = os.path.join(d, "use_g0_t0.nidq.meta")
        f2 = os.path.join(d, "use2_g0_t0.nidq.meta")
    open(f1, "w").write(synth.meta_text(items))
    v = []
    fresh = dict(spikeglx.read_meta_data(f1))
    sr = spikeglx.Reader(f1)
    q1 = (sr.type, sr.version, sr.nc, sr.nsync, float(sr.fs), sr.ns, np.asarray(sr.sample2volts).tolist(), None if sr.geometry is None else np.asarray(sr.geometry["x"]).tolist())
    if not _eq(dict(sr.meta), fresh):
        diff = sorted(k for k in set(fresh) | set(sr.meta) if fresh.get(k) != sr.meta.get(k))
        v.append(("used:meta-modified", "%r: deriving the acquisition parameters changed the parsed dictionary on %r" % (case, diff)))
    spikeglx.write_meta_data(sr.meta, f2)
    try:
        again = dict(spikeglx.read_meta_data(f2))
        sr2 = spikeglx.Reader(f2)
        q2 = (sr2.type, sr2.version, sr2.nc, sr2.nsync, float(sr2.fs), sr2.ns, np.asarray(sr2.sample2volts).tolist(), None if sr2.geometry is None else np.asarray(sr2.geometry["x"]).tolist())
        if not _eq(again, fresh):
            diff = sorted(k for k in set(fresh) | set(again) if fresh.get(k) != again.get(k))
            v.append(("used:roundtrip", "%r: parse, use, write, parse differs from the first parse on %r: %r" % (case, diff, [(fresh.get(k), again.get(k)) for k in diff][:3])))
        if q1 != q2:
            v.append(("used:derived", "%r: the re-written file gives other derived quantities: %r vs %r" % (case, q2[:6], q1[:6])))
    except Exception as e:
        v.append(("used:exc:%s" % type(e).__name__, "%r: the file written after use cannot be read back: %s" % (case, e)))
    return Res(v, o=typ, tr=4)


# ------------------------------------------------------------------ shipped fixtures round-trip
def fixture_cases(tier, seed):
    fx = "/repo/src/tests/fixtures"
    out = []
    for root, _, files in os.walk(fx):
        for fn in sorted(files):
            if fn.endswith(".meta"):
                out.append(os.path.join(root, fn))
    return out


def fixture_check(path):
    d = synth.proc_scratch()
    try:
        m1 = spikeglx.read_meta_data(path)
    except Exception as e:
        return Res([("fixture:parse", "%s: %s" % (path, e))])
    f2 = os.path.join(d, "fx.meta")
    spikeglx.write_meta_data(m1, f2)
    m2 = spikeglx.read_meta_data(f2)
    v = []
    if not _eq(dict(m1), dict(m2)):
        diff = [k for k in set(m1) | set(m2) if m1.get(k) != m2.get(k)]
        # float lists are outside the domain (only integer lists round-trip by construction)
        diff = [k for k in diff if not (isinstance(m1.get(k), list) and any(float(x) != int(x) for x in m1[k]))]
        if diff:
            v.append(("fixture:roundtrip", "%s: keys %r change through write/parse: %r" % (os.path.basename(path), diff, [(m1.get(k), m2.get(k)) for k in diff][:3])))
    return Res(v, o="fx", tr=3)


CHECK = {
    "property": "C09",
    "rule": "grammar: every value string of length <= L over a 9-symbol alphabet, in three file forms, restricted to the property's domain "
            "(strings, numeric scalars, integer lists); derived: (kind, stream, saved count) x all 64 IMRO gain pairs; non-trivial = in-domain",
    "assumptions": [
        "numeric-looking values that are neither a scalar nor an integer list ('.', '0,', ',7', '0.5,7') are outside the property's domain and skipped",
        "derived quantities are read through the public Reader attributes of a Reader opened on the .meta alone",
    ],
    "clauses": [
        Clause("grammar", "all values over the alphabet", cases=grammar_cases, check=grammar_check),
        Clause("scalars", "decimal scalars mant x 10^e written positionally", cases=scalar_cases, check=scalar_check),
        Clause("intlists", "integer lists with elements from 0 to 2^53", cases=intlist_cases, check=intlist_check),
        Clause("derived", "derived quantities for every kind/stream/gain pair/count", cases=derived_cases, check=derived_check),
        Clause("derived-sequences", "metadata sharing their gain / site tables and differing in range, max integer, rate, duration, read one after the other in one process",
               cases=dseq_cases, check=dseq_check),
        Clause("used", "parse, derive through the Reader, write, parse", cases=used_cases, check=used_check),
        Clause("fixtures", "shipped .meta files round-trip", cases=fixture_cases, check=fixture_check),
    ],
}
