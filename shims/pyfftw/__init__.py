"""
Stand-in for the two pyfftw entry points used by ibldsp.voltage.decompress_destripe_cbin (pyfftw is not installed in
this sandbox): aligned allocation and a planned real FFT along one axis, with the shape and dtype checks the real
object performs.  Put on sys.path by the C06 check only.
"""
import numpy as np
import scipy.fft


def empty_aligned(shape, dtype="float64", order="C", n=None):
    return np.empty(shape, dtype=dtype, order=order)


def zeros_aligned(shape, dtype="float64", order="C", n=None):
    return np.zeros(shape, dtype=dtype, order=order)


class FFTW(object):
    def __init__(self, input_array, output_array, axes=(-1,), direction="FFTW_FORWARD", flags=("FFTW_MEASURE",), threads=1, **kw):
        self.in_shape, self.in_dtype = input_array.shape, input_array.dtype
        self.out_shape, self.out_dtype = output_array.shape, output_array.dtype
        self.axes = tuple(axes)
        self.direction = direction
        if len(self.axes) != 1:
            raise ValueError("shim: only one transform axis is supported")
        ax = self.axes[0]
        if direction == "FFTW_FORWARD":
            n = self.in_shape[ax]
            ok = np.issubdtype(self.in_dtype, np.floating) and self.out_shape[ax] == n // 2 + 1
        else:
            n = self.out_shape[ax]
            ok = np.issubdtype(self.out_dtype, np.floating) and self.in_shape[ax] == n // 2 + 1
        if not ok:
            raise ValueError("Invalid shapes: the output array should be the same shape as the input array for the given array dtypes")
        self.n = n

    def __call__(self, input_array=None, output_array=None, normalise_idft=True, **kw):
        a = np.asarray(input_array)
        if a.shape != self.in_shape:
            raise ValueError("Invalid shape: the new input array should be the same shape as the input array used to instantiate the object.")
        ax = self.axes[0]
        if self.direction == "FFTW_FORWARD":
            return scipy.fft.rfft(a.astype(self.in_dtype, copy=False), axis=ax).astype(self.out_dtype, copy=False)
        return scipy.fft.irfft(a.astype(self.in_dtype, copy=False), n=self.n, axis=ax).astype(self.out_dtype, copy=False)
