#!/bin/bash
# seedsweep.sh <log> <Cnn...>
LOG=$1; shift
for s in ${SEEDS:-1 2 3 7 11}; do for P in "$@"; do
  out=$(VERIF_SEED=$s VERIF_OUT=/tmp/sweepout/$P VERIF_JOBS=6 timeout 3000 /venv/bin/python /verif/run.py $P --tier quick 2>&1); rc=$?
  echo "seed=$s $P rc=$rc $(echo "$out" | grep -E '^VIOLATION|HARNESS' | head -2 | tr '\n' ' ')" >> $LOG
done; done
