import sys, re, os
src, outprefix = sys.argv[1], sys.argv[2]
txt = open(src).read()
files = re.split(r'(?m)^(?=diff --git )', txt)
files = [f for f in files if f.strip()]
hunks = []
for f in files:
    parts = re.split(r'(?m)^(?=@@ )', f)
    head, hs = parts[0], parts[1:]
    for h in hs:
        hunks.append((head, h))
print(len(hunks), 'hunks')
if len(hunks) >= 2 and len(hunks) <= 4:
    for i, (head, h) in enumerate(hunks):
        open('%s_hunk%d.diff' % (outprefix, i + 1), 'w').write(head + h)
    # complements too when more than two hunks
    if len(hunks) > 2:
        for i in range(len(hunks)):
            rest = [x for j, x in enumerate(hunks) if j != i]
            out = ''
            lasthead = None
            for head, h in rest:
                if head != lasthead:
                    out += head; lasthead = head
                out += h
            open('%s_without%d.diff' % (outprefix, i + 1), 'w').write(out)
