#!/bin/bash
# evalone.sh <wave> <Cnn> <V> [extra run.py args]: apply patch in the worktree, run the quick check, revert
W=$1; P=$2; V=$3; shift 3
wt=/tmp/mut$W/$P
git -C $wt checkout -q -- src
git -C $wt apply $wt/mutant/$V/patch.diff || { echo "apply failed"; exit 9; }
OUT=/tmp/mutout$W/${P}_$V; mkdir -p $OUT
VERIF_REPO=$wt VERIF_OUT=$OUT timeout 3000 /venv/bin/python /verif/run.py $P --tier quick "$@" > $OUT/$P.log 2>&1; rc=$?
echo "$P $V rc=$rc $(grep -c '^VIOLATION' $OUT/$P.log) viol; $(grep -E '^\s+\[C' $OUT/$P.log | head -4 | tr '\n' ' ' | cut -c1-300)"
git -C $wt checkout -q -- src
