#!/bin/bash
# stream.sh <wave> <Cnn...> : per property: confirm A,B then evaluate the quick check against each patch
W=$1; shift
export MUTROOT=/tmp/mut$W CONFLOG=/tmp/confirm$W.log BASELINE_N=4
for P in "$@"; do
  for V in A B; do
    [ -f $MUTROOT/$P/mutant/$V/patch.diff ] || continue
    /verif/tools/confirm_mutants.sh $P:$V
  done
  VERIF_JOBS=6 /verif/tools/eval_all_mutants.sh $MUTROOT /tmp/mutout$W $P >> /tmp/eval$W.log 2>&1
done
