import json, sys
pid = sys.argv[1]
p = [json.loads(l) for l in open('/verif/properties.jsonl') if json.loads(l)['id'] == pid][0]
wt = '/tmp/neg3/%s' % pid
print(f"""You are helping to evaluate a verification effort for the open-source Python library int-brain-lab/ibl-neuropixel (DSP toolkit for Neuropixel probe recordings). A set of automated checks guards the semantic property below. Those checks must NEVER raise an alarm on code for which the property still holds. Your job is to play the part of a developer who REFACTORS the code the property rests on WITHOUT changing its observable behaviour - as invasively as you can - so that we can see whether the checks stay silent.

Your private scratch git worktree of the library is at {wt} (a detached checkout; source under {wt}/src). Work ONLY inside that directory. Never touch /repo or /verif and never read anything under /verif. Run Python as `cd {wt} && PYTHONPATH={wt}/src /venv/bin/python ...` (verify once with `python -c "import spikeglx; print(spikeglx.__file__)"` that your worktree's sources are imported). There is no network. Use a private temp dir (`export TMPDIR={wt}/.tmp; mkdir -p $TMPDIR`). pyfftw is not installed (some code paths in ibldsp.voltage need it; if you need them, put a tiny NumPy stand-in module on sys.path in your scripts only - not in the patch). NEVER use `git stash` (shared between worktrees): use `git diff -- src > file; git checkout -- src; git apply file`.

THE PROPERTY:

  id: {p['id']}
  title: {p['title']}
  statement: {p['statement']}
  holds for: {p['quantifier']['text']}
  code it is anchored in: {', '.join(p['anchors']['files'])} ({'; '.join(m['where'] for m in p['anchors']['mechanism'])})

YOUR TASK: produce TWO independent BENIGN EXTENSIONS / HARDENINGS (A and B) of the library's source (under {wt}/src, not the tests) - the kind of change a maintainer merges all the time and that must not disturb anyone relying on the property. Each of them
  1. KEEPS, for EVERY input / configuration / history in the property's stated domain, exactly today's observable behaviour of every public function / method / attribute involved: same return values (bit-identical), dtypes, shapes, same output files with the same names and bytes, same effect on arguments, same behaviour on repeated calls, same exceptions where the property or the documentation speaks of a refusal. The property must still hold for every input in its domain.
  2. ADDS or CHANGES something real, but only where neither the property nor the documentation promises anything: a new optional keyword argument whose default reproduces today's behaviour (and whose non-default value does something useful); acceptance of more input types that used to raise (str as well as pathlib.Path, lists as well as arrays, numpy scalars as well as builtin numbers) with the result one would expect; earlier and clearer validation of INVALID input (outside the domain) raising the same exception class as before or a subclass of it; extra logging / warnings.warn / progress reporting; extra attributes on objects, extra keys appended to returned dicts or written metadata that existing readers ignore; an extra small sidecar / log / temporary file with a NEW name next to the outputs (never one of the existing output names), removed or left behind; making a write more careful (write to a temporary name, flush, then rename to the final name; closing file handles earlier; context managers); a __repr__, a helper method, a convenience alias. Be as bold as a real feature commit (tens of lines) - but nothing may change for valid use as described above.
  3. still lets the repository's test-suite pass exactly as before (`cd {wt} && PYTHONPATH={wt}/src /venv/bin/python -m pytest -q -p no:cacheprovider --timeout=900 src/tests/unit` - run it WITHOUT -x; some tests fail on the unchanged tree already, see the "always_fail" list in /root/.vp/BASELINE.json; every test in its "stable_pass" list must pass).
A and B are independent diffs against the clean tree and should extend DIFFERENT parts or aspects of the code anchored in the property. Size: substantial (tens of lines), but valid use must be unaffected. If you are unsure whether an edit preserves behaviour in some corner (empty input, one sample, odd lengths, negative steps, non-default options, repeated calls, crash in the middle, several worker processes) - test it, and if it does not, drop that edit.

DELIVERABLES, for V in A, B (create the directories):
  {wt}/refactor/V/patch.diff  - `git diff -- src` against the clean tree (applies with `git apply`; only files under src/, no tests)
  {wt}/refactor/V/equiv.py    - a differential test: it loads the ORIGINAL version of the touched module(s) from git (e.g. `git show HEAD:src/<file>` written to a temp dir and imported under another name with importlib, with the same package context where needed) next to the CHANGED working tree version, runs both on a broad, deterministic set of inputs covering the corners listed above, and asserts equality of every observable (values, dtypes, shapes, file bytes, exceptions). Exit 0 and print OK when equivalent. Invoked as `cd {wt} && PYTHONPATH={wt}/src /venv/bin/python refactor/V/equiv.py` WITH the patch applied. Under 3 minutes.
  {wt}/refactor/V/meta.json   - {{"property": "{p['id']}", "extension": "<what was restructured>", "why_equivalent": "<the argument, including corners you tested>", "ran": "<commands and outcomes: equiv.py with the patch, test-suite with the patch>"}}

Procedure per extension: edit; run equiv.py (OK); run the tests (as on the clean tree); `git diff -- src > refactor/V/patch.diff`; `git checkout -- src`. Leave the worktree CLEAN at the end with only refactor/ (and .tmp) added. Do not commit anything.

Finish with a short report (one paragraph per extension).""")
