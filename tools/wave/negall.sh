#!/bin/bash
# negall.sh <lane> <nlanes>: re-runs every stored negative control at /repo HEAD (own worktree per lane)
L=$1; N=$2; WT=/tmp/negl$L; LOG=/tmp/negall.log
[ -d $WT ] || git -C /repo worktree add -q --detach $WT HEAD
i=0
for d in /verif/seeded/negative-w4/*.diff /verif/seeded/negative-n1/*/patch.diff /verif/seeded/negative-n2/*/patch.diff /verif/seeded/negative-n3/*/patch.diff; do
  i=$((i+1)); [ $((i % N)) -eq $L ] || continue
  case $d in
    */negative-w4/*) name=w4:$(basename $d .diff); P=$(basename $d | cut -c1-3);;
    *) name=$(basename $(dirname $(dirname $d))):$(basename $(dirname $d)); P=$(basename $(dirname $d) | cut -c1-3);;
  esac
  git -C $WT checkout -q -- . ; git -C $WT clean -fdq src
  git -C $WT apply $d 2>/dev/null || { git -C $WT apply --3way $d 2>/dev/null && git -C $WT reset -q; } || { echo "$name $P APPLY-FAILED" >> $LOG; git -C $WT checkout -q -- .; git -C $WT reset -q --hard; continue; }
  if grep -q "<<<<<<<" -r $WT/src --include=*.py 2>/dev/null; then echo "$name $P APPLY-CONFLICT" >> $LOG; git -C $WT reset -q --hard; continue; fi
  OUT=/tmp/negallout/$L; mkdir -p $OUT
  VERIF_REPO=$WT VERIF_OUT=$OUT VERIF_JOBS=5 timeout 2400 /venv/bin/python /verif/run.py $P --tier quick > $OUT/log 2>&1; rc=$?
  echo "$name $P rc=$rc $([ $rc -eq 0 ] && echo silent || echo ALARM) $(grep -E '^\s+\[C|HARNESS' $OUT/log | head -3 | tr '\n' ' ' | cut -c1-220)" >> $LOG
  git -C $WT checkout -q -- . ; git -C $WT reset -q --hard; git -C $WT clean -fdq src
done
echo "lane $L done" >> $LOG
