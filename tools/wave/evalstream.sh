#!/bin/bash
# evalstream.sh <wave> <out log> <props...>
W=$1; LOG=$2; shift 2
VERIF_JOBS=6 /verif/tools/eval_all_mutants.sh /tmp/mut$W /tmp/mutout$W "$@" >> $LOG 2>&1
