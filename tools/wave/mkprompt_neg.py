import json, sys
pid = sys.argv[1]
p = [json.loads(l) for l in open('/verif/properties.jsonl') if json.loads(l)['id'] == pid][0]
wt = '/tmp/neg1/%s' % pid
print(f"""You are helping to evaluate a verification effort for the open-source Python library int-brain-lab/ibl-neuropixel (DSP toolkit for Neuropixel probe recordings). A set of automated checks guards the semantic property below. Those checks must NEVER raise an alarm on code for which the property still holds. Your job is to play the part of a developer who REFACTORS the code the property rests on WITHOUT changing its observable behaviour - as invasively as you can - so that we can see whether the checks stay silent.

Your private scratch git worktree of the library is at {wt} (a detached checkout; source under {wt}/src). Work ONLY inside that directory. Never touch /repo or /verif and never read anything under /verif. Run Python as `cd {wt} && PYTHONPATH={wt}/src /venv/bin/python ...` (verify once with `python -c "import spikeglx; print(spikeglx.__file__)"` that your worktree's sources are imported). There is no network. Use a private temp dir (`export TMPDIR={wt}/.tmp; mkdir -p $TMPDIR`). pyfftw is not installed (some code paths in ibldsp.voltage need it; if you need them, put a tiny NumPy stand-in module on sys.path in your scripts only - not in the patch). NEVER use `git stash` (shared between worktrees): use `git diff -- src > file; git checkout -- src; git apply file`.

THE PROPERTY:

  id: {p['id']}
  title: {p['title']}
  statement: {p['statement']}
  holds for: {p['quantifier']['text']}
  code it is anchored in: {', '.join(p['anchors']['files'])} ({'; '.join(m['where'] for m in p['anchors']['mechanism'])})

YOUR TASK: produce TWO independent refactorings (A and B) of the library's source (under {wt}/src, not the tests), each of which
  1. KEEPS the observable behaviour of every PUBLIC function / method / attribute involved in the property: same return values (bit-identical; where you change the order of floating-point operations, equal within 1e-12 relative - say so), same dtypes and shapes, same files with the same bytes, same exceptions for invalid input, same effect on arguments (in-place or not), same behaviour on repeated calls. In particular the property itself must still hold for EVERY input in its stated domain.
  2. is as INVASIVE as a real refactoring gets, the kind of change that breaks brittle tests: rename or remove private helpers / private attributes / local functions, change private signatures, split or merge functions, rewrite loops as vectorised code or vice versa, replace a library call by an equivalent one (np.dot -> @, scipy.fft -> numpy.fft where results agree, pathlib <-> os.path, f-strings, comprehension <-> loop), reorder independent statements, change the order in which files are written or temporary names used where that is not observable afterwards, introduce a CORRECT cache (keyed on everything the value depends on, returning copies), move code between modules (keeping public names importable), change how parallel work is dispatched while producing the same files, add type normalisation that is a no-op for valid input.
  3. still lets the repository's test-suite pass exactly as before (`cd {wt} && PYTHONPATH={wt}/src /venv/bin/python -m pytest -q -p no:cacheprovider --timeout=900 src/tests/unit` - run it WITHOUT -x; some tests fail on the unchanged tree already, see the "always_fail" list in /root/.vp/BASELINE.json; every test in its "stable_pass" list must pass).
A and B are independent diffs against the clean tree and should restructure DIFFERENT parts or aspects of the code. Size: substantial (tens of lines), but every line must be behaviour-preserving. If you are unsure whether an edit preserves behaviour in some corner (empty input, one sample, odd lengths, negative steps, non-default options, repeated calls, crash in the middle, several worker processes) - test it, and if it does not, drop that edit.

DELIVERABLES, for V in A, B (create the directories):
  {wt}/refactor/V/patch.diff  - `git diff -- src` against the clean tree (applies with `git apply`; only files under src/, no tests)
  {wt}/refactor/V/equiv.py    - a differential test: it loads the ORIGINAL version of the touched module(s) from git (e.g. `git show HEAD:src/<file>` written to a temp dir and imported under another name with importlib, with the same package context where needed) next to the CHANGED working tree version, runs both on a broad, deterministic set of inputs covering the corners listed above, and asserts equality of every observable (values, dtypes, shapes, file bytes, exceptions). Exit 0 and print OK when equivalent. Invoked as `cd {wt} && PYTHONPATH={wt}/src /venv/bin/python refactor/V/equiv.py` WITH the patch applied. Under 3 minutes.
  {wt}/refactor/V/meta.json   - {{"property": "{p['id']}", "refactoring": "<what was restructured>", "why_equivalent": "<the argument, including corners you tested>", "ran": "<commands and outcomes: equiv.py with the patch, test-suite with the patch>"}}

Procedure per refactoring: edit; run equiv.py (OK); run the tests (as on the clean tree); `git diff -- src > refactor/V/patch.diff`; `git checkout -- src`. Leave the worktree CLEAN at the end with only refactor/ (and .tmp) added. Do not commit anything.

Finish with a short report (one paragraph per refactoring).""")
