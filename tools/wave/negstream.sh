#!/bin/bash
# negstream.sh <log> <Cnn...>: behaviour-preserving refactorings must leave the property's quick check silent
LOG=$1; shift
for P in "$@"; do
  wt=/tmp/neg1/$P
  for V in A B; do
    pd=$wt/refactor/$V/patch.diff
    [ -f $pd ] || { echo "$P $V no-patch" >> $LOG; continue; }
    git -C $wt checkout -q -- . ; git -C $wt clean -fdq src
    git -C $wt apply $pd 2>/dev/null || { echo "$P $V APPLY-FAILED" >> $LOG; continue; }
    OUT=/tmp/negout1/${P}_$V; mkdir -p $OUT
    VERIF_REPO=$wt VERIF_OUT=$OUT VERIF_JOBS=6 timeout 3000 /venv/bin/python /verif/run.py $P --tier quick > $OUT/log 2>&1; rc=$?
    echo "$P $V rc=$rc $([ $rc -eq 0 ] && echo silent || echo ALARM) $(grep -E '^\s+\[C|HARNESS' $OUT/log | head -3 | tr '\n' ' ' | cut -c1-260)" >> $LOG
    git -C $wt checkout -q -- . ; git -C $wt clean -fdq src
  done
done
