import json, sys
wave, pid = sys.argv[1], sys.argv[2]
themes = json.load(open('/tmp/themes.json'))[wave]
p = [json.loads(l) for l in open('/verif/properties.jsonl') if json.loads(l)['id'] == pid][0]
wt = '/tmp/mut%s/%s' % (wave, pid)
print(f"""You are helping to evaluate a verification effort for the open-source Python library int-brain-lab/ibl-neuropixel (DSP toolkit for Neuropixel probe recordings). Your job is to play the part of a developer who introduces a realistic, subtle regression.

Your private scratch git worktree of the library is at {wt} (a detached checkout; source under {wt}/src). Work ONLY inside that directory. Never touch /repo or /verif and never read anything under /verif. Run Python as `cd {wt} && PYTHONPATH={wt}/src /venv/bin/python ...` (the interpreter /venv/bin/python has all dependencies; PYTHONPATH makes it import your worktree's sources rather than the installed copy - verify this once with `python -c "import spikeglx; print(spikeglx.__file__)"`). There is no network. Use a private temp dir (`export TMPDIR={wt}/.tmp; mkdir -p $TMPDIR`) for scratch files. pyfftw is not installed (some code paths in ibldsp.voltage need it; if you need them, put a tiny stand-in module on sys.path in your demo only - not in the patch).

THE PROPERTY (a semantic property that users of the library rely on):

  id: {p['id']}
  title: {p['title']}
  statement: {p['statement']}
  holds for: {p['quantifier']['text']}
  why the existing tests cannot settle it: {p['why_tests_cant']}
  code it is anchored in: {', '.join(p['anchors']['files'])} ({'; '.join(m['where'] for m in p['anchors']['mechanism'])})

YOUR TASK: produce TWO independent changes (call them A and B) to the library's source (under {wt}/src, not the tests) such that each one
  1. BREAKS the property above (some clause of its statement becomes false for some input / configuration / history / schedule / fault in the stated domain),
  2. still imports/compiles and lets the repository's existing test-suite pass exactly as before: the command is `cd {wt} && PYTHONPATH={wt}/src /venv/bin/python -m pytest -q -p no:cacheprovider --timeout=900 src/tests/unit -x -q` - note that some tests fail on the UNCHANGED tree already (the "always_fail" list in /root/.vp/BASELINE.json; you may read that file); what matters is that every test named in its "stable_pass" list still passes with your change. Run the suite (at least the test files that touch the code you changed, and preferably all of src/tests/unit) to be sure,
  3. looks like something a real developer could plausibly commit (an optimisation, a refactoring, a "simplification", a bug fix for another case, a new option, a caching layer ...) - not sabotage, no dead giveaways, no special-casing of magic values,
  4. needs something SPECIFIC to manifest - ordinary use must not expose it at once.

Steering for this round - change A: {themes['A']}
Steering for this round - change B: {themes['B']}
If the steering cannot be made to fit this property at all, pick the closest thing that does fit and say so in meta.json.
Keep each change small (a handful of lines, at most ~30). A and B must be independent of each other (each is a diff against the clean tree) and should break DIFFERENT clauses or mechanisms of the property if possible.

DELIVERABLES, for V in A, B, inside your worktree (create the directories):
  {wt}/mutant/V/patch.diff   - `git diff` of the change against the clean tree (must apply with `git apply` on the clean tree; only files under src/, no tests, no files under mutant/)
  {wt}/mutant/V/demo.py      - a small self-contained program that exits 0 and prints OK on the CLEAN tree and exits non-zero (assertion with a clear message) on the CHANGED tree; it must demonstrate a violation of the property as stated (not merely "the code changed"); deterministic; runs in under 2 minutes; invoked as `cd {wt} && PYTHONPATH={wt}/src /venv/bin/python mutant/V/demo.py`; it builds whatever tiny synthetic recordings/metadata it needs itself (the fixtures under src/tests/unit/fixtures show the SpikeGLX .meta format; tiny recordings with a handful of channels are accepted by the reader if nSavedChans / snsApLfSy / imroTbl / snsShankMap|snsGeomMap / snsSaveChanSubset are consistent) in a temp dir it removes afterwards
  {wt}/mutant/V/meta.json    - {{"property": "{p['id']}", "change": "<what was changed and the cover story>", "needs": "<exactly what it takes to manifest: input class / option / history / schedule / fault>", "clause_broken": "<which sentence of the statement>", "ran": "<commands you ran and their outcome: demo on clean tree, demo on changed tree, tests on changed tree>"}}

Procedure per change: make the edit; run the demo (fails); run the tests (pass as on the clean tree); save `git diff -- src > mutant/V/patch.diff`; then `git checkout -- src` (clean tree again) and run the demo (passes). Leave the worktree CLEAN (no patch applied) when you finish, with only the mutant/ directory (and .tmp) added. Do not commit anything and NEVER use `git stash` (the stash is shared between worktrees): to get back to the clean tree use `git diff -- src > file; git checkout -- src` and `git apply file` to restore.

Finish with a short report: for A and B one paragraph each (what, what it needs, what you ran). If after a serious effort you cannot produce a change (the test-suite always catches it, say), deliver what you have and say so.""")
