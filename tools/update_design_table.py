#!/usr/bin/env python3
"""replaces the table of seeded changes in DESIGN.md (section 7.5) by the current output of tools/seeded_table.py"""
import subprocess, re
s = open('/verif/DESIGN.md').read()
tab = subprocess.check_output(['python3', '/verif/tools/seeded_table.py']).decode().strip()
i = s.index('| id | needs | reported as (first keys) | history |')
j = i
lines = s[i:].split('\n')
n = 0
for ln in lines:
    if ln.startswith('|'):
        n += 1
    else:
        break
end = i + len('\n'.join(lines[:n]))
s = s[:i] + tab + s[end:]
open('/verif/DESIGN.md', 'w').write(s)
print('table rows:', tab.count('\n') - 1)
