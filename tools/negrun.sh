#!/bin/bash
# negrun.sh <name> <prop> <diff> [prop2...]: applies a behaviour-preserving diff to /tmp/neg, runs the property's quick check: must be rc=0
NAME=$1; DIFF=$2; shift 2
WT=/tmp/neg
[ -d $WT ] || git -C /repo worktree add -q --detach $WT HEAD
git -C $WT checkout -q -- . ; git -C $WT checkout -q --detach $(git -C /repo rev-parse HEAD)
git -C $WT apply $DIFF 2>/dev/null || git -C $WT apply --3way $DIFF 2>/dev/null || { echo "$NAME APPLY-FAILED"; exit 0; }
(cd $WT && PYTHONPATH=$WT/src /venv/bin/python -c 'import spikeglx, neuropixel, ibldsp.voltage, ibldsp.waveforms, ibldsp.waveform_extraction, ibldsp.utils, ibldsp.fourier' 2>/dev/null) || { echo "$NAME IMPORT-BROKEN"; git -C $WT checkout -q -- .; git -C $WT reset -q --hard; exit 0; }
for P in "$@"; do
  OUT=/tmp/negout/${NAME}_$P; mkdir -p $OUT
  VERIF_REPO=$WT VERIF_OUT=$OUT VERIF_JOBS=8 timeout 3000 /venv/bin/python /verif/run.py $P --tier quick > $OUT/log 2>&1; rc=$?
  echo "$NAME $P rc=$rc $([ $rc -eq 0 ] && echo silent || echo ALARM) $(grep -E '^\s+\[C' $OUT/log | head -3 | tr '\n' ' ' | cut -c1-200)"
done
git -C $WT reset -q --hard
