#!/bin/bash
# runs the repository's pinned baseline (guard off) on a tree (default /repo) and compares with BASELINE.json stable_pass.
# first pass in parallel (xdist) without test_ephys_np2.py (its tests share fixture folders); that file and anything
# missing after the first pass run serially.
TREE=${1:-/repo}
export PYTHONPATH="$TREE/src"
OUT=$(mktemp /tmp/baseline.XXXXXX.xml); OUT2=$(mktemp /tmp/baseline2.XXXXXX.xml)
cd "$TREE" && env -u IBL_NEUROPIXEL_VERIF /venv/bin/python -m pytest -q -p no:cacheprovider --timeout=900 --continue-on-collection-errors -n ${BASELINE_N:-8} --ignore=src/tests/unit/test_ephys_np2.py --junitxml=$OUT >/dev/null 2>&1
CMP=$(mktemp /tmp/_bl_cmp.XXXXXX.py)
cat > $CMP <<'PY'
import sys, json, xml.etree.ElementTree as ET
base = set(json.load(open('/root/.vp/BASELINE.json'))['stable_pass'])
ok=set()
for f in sys.argv[2:]:
    try: t = ET.parse(f)
    except Exception: continue
    for tc in t.iter('testcase'):
        name = tc.get('classname')+'::'+tc.get('name')
        if not any(c.tag in ('failure','error','skipped') for c in tc): ok.add(name)
missing = sorted(base-ok)
if sys.argv[1]=='ids':
    for m in missing:
        mod, rest = m.split('::',1) if m.count('::')==1 else (m.split('::')[0], '::'.join(m.split('::')[1:]))
        parts = mod.split('.')
        # module path = up to the element starting with test_
        i = [k for k,p in enumerate(parts) if p.startswith('test_')][0]
        path = '/'.join(parts[:i+1])+'.py'
        cls = parts[i+1:]
        print('::'.join([path]+cls+[rest]))
else:
    print("baseline: %d/%d stable tests pass" % (len(base & ok), len(base)))
    for m in missing: print("  MISSING", m)
    sys.exit(1 if missing else 0)
PY
IDS=$(python3 $CMP ids $OUT)
if [ -n "$IDS" ]; then
  env -u IBL_NEUROPIXEL_VERIF /venv/bin/python -m pytest -q -p no:cacheprovider --timeout=900 --junitxml=$OUT2 $IDS >/dev/null 2>&1
fi
python3 $CMP report $OUT $OUT2
rc=$?; rm -f $OUT $OUT2 $CMP; exit $rc
