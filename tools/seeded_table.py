#!/usr/bin/env python3
"""prints the markdown table of seeded changes (DESIGN.md 7.4) from /verif/seeded/*/meta.json"""
import json, os, re
MISSED_FIRST = {
 "C02-w1A": "C02 slices had no strides -2/-3", "C03-w1B": "no recording longer than the reconstructor's 60000-sample window (clause `long` added)",
 "C05-w1A": "agc rows only down to 1e-3 (tiny amplitudes added)", "C06-w1B": "append was only run with one worker (append x workers x schedules added)",
 "C07-w1A": "no call sequence over neighbouring lengths in one process (clause `history` added)", "C07-w1B": "delay family had no length of the form 4k+2 (62, 82, 102 added)",
 "C08-w1A": "NP2.4 sub-grid had rows 0 and 47 only (row 600 added)", "C09-w1B": "grammar alphabet could not reach list elements >= 1e6 (clause `intlists` added)",
 "C11-w1B": "ignore_warnings=True not exercised (added to both clauses)", "C12-w1B": "both shanks had the same number of sites (1 + 3 now; C04 too)",
 "C13-w1A": "harness error (task count recomputed by the harness) then no recording length with 86 < ns % chunk <= 128 (lengths added, task count taken from the run)",
 "C15-w1A": "no bad channel whose only neighbours are outside-brain channels (mode `in-outside-block` added)",
 "C01-w2B": "no recording saved without the sync word (nsync=0 configurations added to C01 and C09)", "C02-w2A": "compress_file(check_after_compress=False) not in the event menu (added)",
 "C04-w2A": "a fresh converter per run only (two process() calls on the same object added)", "C04-w2B": "original always consistent with its metadata (initial state `meta-shorter` added)",
 "C05-w2A": "outside-brain labels only as a top block (clause `labels-anywhere` added)", "C05-w2B": "no array longer than 65536 samples (clause `long-arrays` added)",
 "C10-w2B": "NOT CAUGHT, deliberately: the statement does not say whether a sample exactly at the analog threshold is high or low",
 "C11-w2A": "int16 files only (clause `sample-formats`: float32/int32 with metadata added)", "C12-w2A": "offset entry point of the NP2.1 path not exercised (clause `sub-range` added)",
 "C13-w2A": "each extraction used its own path (a second, different recording at the same path in the same process added)",
 "C16-w2A": "the two rules were only exercised one at a time (clause `both-rules` added)", "C18-w2A": "one sampling interval per process (clause `filter-sequences` added)",
 "C19-w2B": "trains too short for drift x duration to exceed the coarse bin (clause `long-trains` added)", "C20-w2A": "real-valued random abscissae only (clause `savgol-lattice` added)",
}
rows = []
for d in sorted(os.listdir('/verif/seeded')):
    f = os.path.join('/verif/seeded', d, 'meta.json')
    if not os.path.exists(f):
        continue
    m = json.load(open(f))
    keys = [k.split(' ', 1)[1] for k in m.get('detected_by', {}).get('clauses_and_keys', [])][:3]
    need = re.sub(r'\s+', ' ', str(m.get('needs', '')))[:150]
    first = MISSED_FIRST.get(d)
    rows.append("| %s | %s | %s | %s |" % (d, need.replace('|', '/'), ', '.join('`%s`' % k for k in keys) or '—', ('missed at first: ' + first) if first else 'caught at first run'))
print("| id | needs | reported as (first keys) | history |\n|---|---|---|---|")
print("\n".join(rows))
