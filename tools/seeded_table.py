#!/usr/bin/env python3
"""prints the markdown table of seeded changes (DESIGN.md 7.4) from /verif/seeded/*/meta.json"""
import json, os, re
MISSED_FIRST = json.load(open('/verif/seeded/history.json'))
rows = []
for d in sorted(os.listdir('/verif/seeded')):
    f = os.path.join('/verif/seeded', d, 'meta.json')
    if not os.path.exists(f):
        continue
    m = json.load(open(f))
    keys = [k.split(' ', 1)[1] for k in m.get('detected_by', {}).get('clauses_and_keys', [])][:3]
    need = re.sub(r'\s+', ' ', str(m.get('needs', '')))[:150]
    first = MISSED_FIRST.get(d)
    rows.append("| %s | %s | %s | %s |" % (d, need.replace('|', '/'), ', '.join('`%s`' % k for k in keys) or '—', ('missed at first: ' + first) if first else 'caught at first run'))
print("| id | needs | reported as (first keys) | history |\n|---|---|---|---|")
print("\n".join(rows))
