#!/usr/bin/env python3
"""prints the markdown table of seeded changes (DESIGN.md 7.4) from /verif/seeded/*/meta.json"""
import json, os, re
MISSED_FIRST = {
 "C02-w1A": "C02 slices had no strides -2/-3", "C03-w1B": "no recording longer than the reconstructor's 60000-sample window (clause `long` added)",
 "C05-w1A": "agc rows only down to 1e-3 (tiny amplitudes added)", "C06-w1B": "append was only run with one worker (append x workers x schedules added)",
 "C07-w1A": "no call sequence over neighbouring lengths in one process (clause `history` added)", "C07-w1B": "delay family had no length of the form 4k+2 (62, 82, 102 added)",
 "C08-w1A": "NP2.4 sub-grid had rows 0 and 47 only (row 600 added)", "C09-w1B": "grammar alphabet could not reach list elements >= 1e6 (clause `intlists` added)",
 "C11-w1B": "ignore_warnings=True not exercised (added to both clauses)", "C12-w1B": "both shanks had the same number of sites (1 + 3 now; C04 too)",
 "C13-w1A": "harness error (task count recomputed by the harness) then no recording length with 86 < ns % chunk <= 128 (lengths added, task count taken from the run)",
 "C15-w1A": "no bad channel whose only neighbours are outside-brain channels (mode `in-outside-block` added)",
 "C01-w2B": "no recording saved without the sync word (nsync=0 configurations added to C01 and C09)", "C02-w2A": "compress_file(check_after_compress=False) not in the event menu (added)",
 "C04-w2A": "a fresh converter per run only (two process() calls on the same object added)", "C04-w2B": "original always consistent with its metadata (initial state `meta-shorter` added)",
 "C05-w2A": "outside-brain labels only as a top block (clause `labels-anywhere` added)", "C05-w2B": "no array longer than 65536 samples (clause `long-arrays` added)",
 "C10-w2B": "NOT CAUGHT, deliberately: the statement does not say whether a sample exactly at the analog threshold is high or low",
 "C11-w2A": "int16 files only (clause `sample-formats`: float32/int32 with metadata added)", "C12-w2A": "offset entry point of the NP2.1 path not exercised (clause `sub-range` added)",
 "C13-w2A": "each extraction used its own path (a second, different recording at the same path in the same process added)",
 "C16-w2A": "the two rules were only exercised one at a time (clause `both-rules` added)", "C18-w2A": "one sampling interval per process (clause `filter-sequences` added)",
 "C01-w3B": "every read was compared at once (clause `kept-results`: arrays returned earlier are re-checked after later reads)",
 "C02-w3B": "in-place decompression onto an existing .bin was not an enabled event (now enabled: refusal without change, or completion)",
 "C03-w3B": "a fresh converter per run (clause `rerun`: forced re-split on the same / a fresh object, then reconstruct)",
 "C04-w3A": "shank numbers were 0..k-1 and the NP2.4_shank key was not part of the validity predicate (shanks {1,3}; key and stream type checked)",
 "C05-w3B": "no dead/noisy label together with an ADC-skewed stripe and a per-channel criterion (patterns with labels 1/2 added to `labels-anywhere`)",
 "C06-w3A": "whitening matrices were symmetric (cyclic permutation and bidiagonal matrices added)",
 "C06-w3B": "one header per process (two runs in one process whose headers differ only by their sampling delays added)",
 "C07-w3B": "the array of per-trace shifts was never reused (reuse over blocks of different lengths added to `history`)",
 "C09-w3B": "parse/write only (clause `used`: parse, derive through the Reader, write, parse)",
 "C10-w3B": "every decode used a fresh array (case `twice`: same int16 array decoded repeatedly, input compared afterwards)",
 "C11-w3A": ".ch always written with the metadata's rate (streams compressed at the nominal rate, 5000-61003 samples, added)",
 "C11-w3B": "readers were always opened at construction (clause `deferred-open` added)",
 "C12-w3A": "four window sizes only (clause `window-sweep`: every multiple of 12 from 588 to 1320, thorough to 20000)",
 "C12-w3B": "no forced re-conversion in C12 (clause `rerun` added; C04 already caught it)",
 "C15-w3B": "one geometry per label vector and process (mode `geometry-sequence` added)",
 "C16-w3A": "slew steps never crossed zero (zero-crossing steps added)", "C16-w3B": "range array never reused between calls (repeated call with the same array added)",
 "C18-w3B": "frequency scale never edited by a caller between two requests (added to `filter-sequences`)",
 "C19-w3B": "each map evaluated right after its own fit (clause `kept-maps` added)",
 "C19-w2B": "trains too short for drift x duration to exceed the coarse bin (clause `long-trains` added)", "C20-w2A": "real-valued random abscissae only (clause `savgol-lattice` added)",
}
rows = []
for d in sorted(os.listdir('/verif/seeded')):
    f = os.path.join('/verif/seeded', d, 'meta.json')
    if not os.path.exists(f):
        continue
    m = json.load(open(f))
    keys = [k.split(' ', 1)[1] for k in m.get('detected_by', {}).get('clauses_and_keys', [])][:3]
    need = re.sub(r'\s+', ' ', str(m.get('needs', '')))[:150]
    first = MISSED_FIRST.get(d)
    rows.append("| %s | %s | %s | %s |" % (d, need.replace('|', '/'), ', '.join('`%s`' % k for k in keys) or '—', ('missed at first: ' + first) if first else 'caught at first run'))
print("| id | needs | reported as (first keys) | history |\n|---|---|---|---|")
print("\n".join(rows))
