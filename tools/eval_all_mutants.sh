#!/bin/bash
# eval_all_mutants.sh [mutroot] [outroot] [props...]: applies every agent mutant in its worktree, runs the property's quick check against it, reverts
ROOT=${1:-/tmp/mut}; OUTROOT=${2:-/tmp/mutout}; shift; shift
LIST=${@:-$(ls $ROOT | grep -E '^C[0-9]+$')}
for P in $LIST; do
  wt=$ROOT/$P
  for v in A B C; do
    pd=$wt/mutant/$v/patch.diff
    [ -f $pd ] || continue
    git -C $wt checkout -q -- src 2>/dev/null
    if ! git -C $wt apply $pd 2>/dev/null; then echo "$P $v patch does not apply"; continue; fi
    OUT=$OUTROOT/${P}_$v; mkdir -p $OUT
    VERIF_REPO=$wt VERIF_OUT=$OUT timeout 1800 /venv/bin/python /verif/run.py $P --tier quick > $OUT/$P.log 2>&1; rc=$?
    echo "$P $v rc=$rc $(grep -c '^VIOLATION' $OUT/$P.log) viol; $(grep -E '^\s+\[C' $OUT/$P.log | head -3 | tr '\n' ' ' | cut -c1-200)"
    git -C $wt checkout -q -- src
  done
done
