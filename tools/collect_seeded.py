#!/usr/bin/env python3
"""
collect_seeded.py <wave> <mutroot>: copies the independent property-breaking changes of one wave into /verif/seeded/<prop>-w<wave><V>/
(patch.diff, demo.py, meta.json) and adds to meta.json what was confirmed here (demo on clean / changed tree, baseline with the
change) and which check keys report it.  Sources: <mutroot>/<prop>/mutant/<V>/, /tmp/confirm<wave>.log, /tmp/mutout<wave>/<prop>_<V>/<prop>.log
"""
import json, os, re, shutil, sys
wave, root = sys.argv[1], sys.argv[2]
conf = {}
cl = '/tmp/confirm%s.log' % ('' if wave == '1' else wave)
if os.path.exists(cl):
    for ln in open(cl):
        m = re.match(r'(C\d+) (\w) demo_clean_rc=(\d+) demo_mutant_rc=(\d+) (.*)', ln)
        if m:
            conf[(m.group(1), m.group(2))] = dict(demo_clean_rc=int(m.group(3)), demo_mutant_rc=int(m.group(4)), baseline=m.group(5).strip())
out = []
for prop in sorted(os.listdir(root)):
    for v in ('A', 'B', 'C'):
        src = os.path.join(root, prop, 'mutant', v)
        if not os.path.exists(os.path.join(src, 'patch.diff')):
            continue
        dst = '/verif/seeded/%s-w%s%s' % (prop, wave, v)
        os.makedirs(dst, exist_ok=True)
        for f in ('patch.diff', 'demo.py'):
            if os.path.exists(os.path.join(src, f)):
                shutil.copy(os.path.join(src, f), os.path.join(dst, f))
        try:
            meta = json.load(open(os.path.join(src, 'meta.json')))
        except Exception:
            meta = {}
        log = '/tmp/mutout%s/%s_%s/%s.log' % ('' if wave == '1' else wave, prop, v, prop)
        keys, nviol = [], 0
        if os.path.exists(log):
            txt = open(log).read()
            keys = sorted(set(re.findall(r'^\s+\[(C\d+/[^\]]+)\] (\S+)', txt, flags=re.M)))
            nviol = len(re.findall(r'^VIOLATION', txt, flags=re.M))
        c = conf.get((prop, v), {})
        meta['confirmed_here'] = dict(
            demo_on_clean_tree_exit=c.get('demo_clean_rc'), demo_on_changed_tree_exit=c.get('demo_mutant_rc'), baseline_with_change=c.get('baseline'),
            how="tools/confirm_mutants.sh: demo.py on the clean scratch worktree, then with patch.diff applied, then tools/baseline.sh (the repository's pinned test command) on the changed tree")
        meta['detected_by'] = dict(check='/venv/bin/python /verif/run.py %s --tier quick (VERIF_REPO=<scratch worktree with the patch>)' % prop,
                                   violation_lines=nviol, clauses_and_keys=['%s %s' % k for k in keys])
        json.dump(meta, open(os.path.join(dst, 'meta.json'), 'w'), indent=1)
        out.append((prop, v, c.get('demo_clean_rc'), c.get('demo_mutant_rc'), (c.get('baseline') or '')[:40], nviol))
for o in out:
    print(*o)
