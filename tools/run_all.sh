#!/bin/bash
# run_all.sh [tier] [seed]  - runs every registered check once, prints one line per check
TIER=${1:-quick}; SEED=${2:-0}
HERE=$(cd "$(dirname "$0")/.." && pwd)
cd $HERE
for p in $(python3 -c "import json;print(' '.join(c['property_id'] for c in json.load(open('MANIFEST.json'))['checks']))"); do
  s=$(date +%s)
  out=$(VERIF_SEED=$SEED /venv/bin/python $HERE/run.py $p --tier $TIER 2>&1); rc=$?
  e=$(date +%s)
  echo "$p rc=$rc $((e-s))s $(echo "$out" | grep -c '^VIOLATION') violations $(echo "$out" | grep -c '^KNOWN-FINDING') known; $(echo "$out" | grep -E 'HARNESS|VIOLATION' | head -2 | tr '\n' ' ')"
done
