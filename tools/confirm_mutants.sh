#!/bin/bash
# confirm_mutants.sh <list of "Cnn:V" ...>: for each agent mutant: demo on clean tree (must pass), demo on changed tree (must fail),
# baseline tests on the changed tree (84 stable must pass).  Results appended to ${CONFLOG:-/tmp/confirm.log}
for item in "$@"; do
  P=${item%%:*}; V=${item##*:}; wt=${MUTROOT:-/tmp/mut}/$P; m=$wt/mutant/$V
  git -C $wt checkout -q -- src; git -C $wt clean -fdxq src/tests/fixtures 2>/dev/null
  export TMPDIR=/tmp/mut/_tmp_${P}${V}_$$; rm -rf $TMPDIR; mkdir -p $TMPDIR
  (cd $wt && PYTHONPATH=$wt/src timeout 900 /venv/bin/python mutant/$V/demo.py > $TMPDIR/demo_clean.log 2>&1); rc_clean=$?
  git -C $wt apply $m/patch.diff || { echo "$P $V APPLY-FAILED" >> ${CONFLOG:-/tmp/confirm.log}; continue; }
  (cd $wt && PYTHONPATH=$wt/src timeout 900 /venv/bin/python mutant/$V/demo.py > $TMPDIR/demo_mut.log 2>&1); rc_mut=$?
  bl=$(/verif/tools/baseline.sh $wt 2>&1 | grep -E "baseline:|MISSING" | tr '\n' ' ')
  git -C $wt checkout -q -- src; git -C $wt clean -fdxq src/tests/fixtures 2>/dev/null
  echo "$P $V demo_clean_rc=$rc_clean demo_mutant_rc=$rc_mut $bl" >> ${CONFLOG:-/tmp/confirm.log}
  rm -rf $TMPDIR
done
