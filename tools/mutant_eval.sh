#!/bin/bash
# mutant_eval.sh <worktree> <Cnn> [more checks...] : runs the given checks (quick) against a scratch tree, outputs to /tmp/mutout/<name>
WT=$1; shift
NAME=$(basename $WT)
OUT=/tmp/mutout/$NAME; mkdir -p $OUT
for p in "$@"; do
  VERIF_REPO=$WT VERIF_OUT=$OUT /venv/bin/python /verif/run.py $p --tier quick > $OUT/$p.log 2>&1; rc=$?
  echo "$NAME $p rc=$rc $(grep -c '^VIOLATION' $OUT/$p.log) violation lines; $(grep -E '^\s+\[C' $OUT/$p.log | head -3 | tr '\n' ' ')"
done
