#!/bin/bash
# sweep_seeded.sh [streams] : re-applies every /verif/seeded/<id>/patch.diff to a fresh scratch worktree of /repo's HEAD (one worktree per
# stream, outside /repo and /verif), runs the property's quick check against it, records rc / violation keys in $SWEEP_OUT/summary.txt, and
# removes the worktrees.  A seeded change counts as detected when the check exits 1 with a VIOLATION line.
V=$(cd "$(dirname "$0")/.." && pwd)
N=${1:-4}
ROOT=${SWEEP_ROOT:-/tmp/sweep}; OUT=${SWEEP_OUT:-/tmp/sweepout}
mkdir -p $ROOT $OUT; : > $OUT/summary.txt
H=$(git -C /repo rev-parse HEAD)
ids=($(ls $V/seeded | grep -E '^C[0-9]+-'))
props=($(printf '%s\n' "${ids[@]}" | cut -d- -f1 | sort -u))
stream() {
  local k=$1 wt=$ROOT/s$1
  git -C /repo worktree add -q --detach $wt $H 2>/dev/null || { echo "worktree $wt failed"; return; }
  local i=0
  for P in "${props[@]}"; do
    if [ $((i % N)) -eq $k ]; then
      for id in $(ls $V/seeded | grep -E "^$P-"); do
        git -C $wt checkout -q -- . ; git -C $wt clean -fdxq src/tests/fixtures 2>/dev/null
        if ! git -C $wt apply $V/seeded/$id/patch.diff 2>/dev/null; then echo "$id patch-does-not-apply" >> $OUT/summary.txt; continue; fi
        o=$OUT/$id; mkdir -p $o
        VERIF_REPO=$wt VERIF_OUT=$o VERIF_JOBS=${SWEEP_JOBS:-4} timeout 2400 /venv/bin/python $V/run.py $P --tier quick > $o/log 2>&1; rc=$?
        echo "$id rc=$rc viol=$(grep -c '^VIOLATION' $o/log) $(grep -E '^\s+\[C' $o/log | head -2 | tr '\n' ' ' | cut -c1-160)" >> $OUT/summary.txt
        rm -rf $o/evidence $o/replays
      done
    fi
    i=$((i+1))
  done
  git -C /repo worktree remove --force $wt
}
for k in $(seq 0 $((N-1))); do stream $k & done
wait
sort $OUT/summary.txt > $OUT/summary.sorted; mv $OUT/summary.sorted $OUT/summary.txt
echo "detected: $(grep -c 'rc=1 ' $OUT/summary.txt) / ${#ids[@]}"
grep -v 'rc=1 ' $OUT/summary.txt
