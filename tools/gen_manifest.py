#!/usr/bin/env python3
"""Regenerates /verif/MANIFEST.json from the table below (run after adding a check)."""
import json, os
V = os.path.dirname(os.path.dirname(os.path.abspath(__file__)))
PY = "/venv/bin/python"

CHECKS = {
 "C01": dict(engine="E1", technique="exhaustive enumeration of selector pairs x probe configurations on a small recording, plus all 65536 sample values per gain class",
             text="63 configurations (8 probe kinds + nidq, both metadata encodings, sorted/unsorted, bin/cbin, AP/LF, non-identity site order, non-uniform gains) x every int / slice (start, stop in [-n-1, n+1], steps +-1..3) / list selector pair of a 4-sample recording are read through the real Reader and compared with NumPy indexing of the reference calibrated, permuted array; thorough runs the full product (98M reads), quick the full x core and core x full products on primary configurations.",
             note="layout decided with one separating content (the gather does not branch on values); values decided by running all 65536 int16 values through every gain class; 1.5 float32 ulp tolerance", ref="3/C01"),
 "C02": dict(engine="E1+E2", technique="exhaustive slice enumeration on cbin vs bin readers; explicit-state BFS over compress/decompress histories on a real directory with a crash injected before every deviation point",
             text="E1: every (channels 2/3/17/385, samples 1..3c+1, content) recording is compressed with an 8-sample chunk and every slice (all start/stop in [-ns-1, ns+1], steps 1,2,3,-1,-2,-3), int and channel selector is compared between the compressed and the uncompressed reader; compress then decompress must reproduce the bytes; all 3x3 combinations of files on disk x path handed to the reader must resolve to the recording. E2: breadth-first search over histories (length <= 4, <= 2 crashes; thorough 6/3) of compress_file / decompress_file (keep_original T/F) / decompress_to_scratch (in place / scratch dir), each fault free or killed before every filesystem mutation, per-chunk call or post-check; in every directory state the recording must be recoverable, every file named .cbin (and the scratch .bin) complete, and an interrupted compression / scratch decompression must leave its source untouched.",
             note="crash = BaseException raised before the operation; torn writes inside one OS write are not modelled; mtscomp single-threaded", ref="3/C02"),
 "C03": dict(engine="E1", technique="exhaustive enumeration of all int16 values x gain settings, all 4^6 shank maps, and a (window, length) box around every window seam",
             text="A recording in which every channel runs through all 65536 int16 values is split for 9 (range, max-int) settings x 2 probe types and every shank file is compared byte for byte with the original columns (+sync), with and without the integrity post-check; all 4096 assignments of six sites to four shanks are split, checked and reassembled with NP2Reconstructor (bytes by sha1, metadata field by field); window sizes 588..1200 x recording lengths around every window seam; compressed source, compressed shank files and compressed reconstruction.",
             note="6-8 site recordings; lengths >= 300 samples", ref="3/C03"),
 "C04": dict(engine="E2", technique="explicit-state BFS over conversion run histories on a real session directory with a crash injected before every filesystem mutation and processing step",
             text="State = exact content of the session directory. Transitions call the real NP2Converter (fresh object per run) with 4 option sets x overwrite (+ a run aimed at an already split shank file), fault free or killed before each of its ~20-40 deviation points; histories of length <= 2 with <= 1 crash (thorough: 3 / 2, all 8 option triples), for NP2.4 from .bin and from .cbin, NP2.1 and NP1. In every state the original samples must be recoverable (original file, its cbin, or reassembly of the shank files) and the original metadata untouched; the original may disappear only in a verified deleting run; a repeated run after a completed one returns 0 and changes nothing; a forced run from any state with the original returns 1 and leaves a complete valid set of shank files; NP1 returns -1 and an already split file 0, changing nothing.",
             note="4 sites on two shanks, 1300 samples, window 600; crash raised before the operation; buffered data of the dead converter is flushed on collection", ref="3/C04"),
 "C05": dict(engine="E1", technique="exhaustive enumeration of the sinusoid basis x ADC tables, pulse x table x filter grids, every (2nd) spike depth, all 3^6 groupings",
             text="The ADC alignment is run on every below-Nyquist DFT bin x 2 phases x 4 ADC tables (basis of a linear operator); destripe/destripe_lfp on 8 (4) disjoint band-limited pulses x 2 amplitudes x 4 tables x k-filter/CAR must attenuate by >= 40 dB; a model spike at every 2nd (thorough: every) depth x NP1/NP2 x both filters must keep >= 90 %; outside-brain rows must be untouched and must not influence inside rows for top blocks 0..40; car leaves zero median/mean per group for all 3^6 groupings; kfilt/fk/car with collections equal each group alone with the same settings; agc data x gain = input.",
             note="spike/label backgrounds are fixed seeded content; stripes periodic in the window with a centred envelope", ref="3/C05"),
 "C06": dict(engine="E3+E1", technique="stateless exploration of the worker bodies under a controlled baton scheduler: every Mazurkiewicz trace (value-aware independence) of the shared-file operations is executed on the real code",
             text="The real decompress_destripe_cbin runs with joblib.Parallel replaced by a scheduler that runs the worker bodies as baton-passing threads with a scheduling point before every write to a shared file (file proxies see ndarray.tofile through flush/tell/seek; the saturation memmap through __setitem__). For 44 configurations (3 batch sizes x recording lengths on every worker/batch seam, options: padding, whitening, nc_out, append, channel rejection, k-filter, cbin input, short recordings with many workers) and every worker count 2..5 (thorough 2..8) the footprint is recorded, overlapping writes are classified by value, all acyclic orientations of the conflicting pairs are linearised and executed (plus reversed and round-robin orders), and every result is compared byte for byte with the one-worker run; the one-worker run is compared with an in-memory batch-wise reference (1 LSB), the sync column with the source, file sizes and QC row counts with the formulas; the write log must cover every output byte with agreeing writers.",
             note="pyfftw replaced by a NumPy/SciPy shim; threads instead of processes (workers share only files: asserted by read-forbidding proxies and footprint equality across schedules); one real-joblib run as conformance point; saturation file content at batch seams is not compared (only its length)", ref="3/C06"),
 "C07": dict(engine="E1", technique="exhaustive enumeration of lengths x all integer shifts on the full impulse basis; fractional shifts on the below-Nyquist sinusoid basis",
             text="For every length 2..300 (thorough: plus primes, powers of 2 and 3 and neighbours up to 2048) and both dtypes, every integer shift in (-n, n) is applied to the identity matrix and compared with the circular roll; axes of 2-D/3-D arrays, per-trace shifts, additivity pairs, fractional delays of every below-Nyquist cos/sin bin, spectrum input, input immutability, shape and dtype are checked. Delay estimation is checked on a 0.05 grid of shifts in [-5,5] for the model spike and band-limited packets, shift_waveform on clusters, parabolic_max on all 3-point patterns.",
             note="linearity in the signal lets the impulse basis decide all signals; delay-estimation waveforms are a fixed family sampled >= 10 times per cycle", ref="3/C07"),
 "C08": dict(engine="E1", technique="exhaustive enumeration of ordered site selections from a sub-grid in both metadata encodings, whole probe grids and dense layouts",
             text="Every ordered selection of 3 (4) sites out of a 16-site sub-grid for NP1, NP2.1, NP2.4 and NPultra is written in both metadata encodings and read sorted and unsorted; sites, permutation, order, joint permutation of all attributes, x/y, ADC tables, encoding agreement and split-shank restriction are compared with an independent model. Whole grids and all dense layouts and 384-site rotations are covered too.",
             note="non-prefix saved-channel subsets not covered (no anchor for an oracle); NPultra shank-map encoding only", ref="3/C08"),
 "C09": dict(engine="E1", technique="exhaustive enumeration of all metadata values up to a length bound over a 9-symbol alphabet; all IMRO gain pairs x probe kinds x counts",
             text="Every value string of length <=5 (6) over {0,7,.,comma,a,=,~,-,space} in three file forms is parsed, written and parsed again; decimal scalars m x 10^e for e in -10..22 likewise; derived quantities (version, stream, counts, fs, ns, volts-per-bit) are compared with an independent reading for every kind x stream x saved count x all 64 gain pairs and every nidq channel layout.",
             note="numeric-looking values that are neither scalars nor integer lists are outside the property's domain and skipped", ref="3/C09"),
 "C11": dict(engine="E1", technique="exhaustive enumeration of writer truncation points (every file length) x metadata claims x readers, run on the real Reader",
             text="Every file length from one frame up (every count of trailing bytes of a partial frame) for 2/5/385-channel files, crossed with what the metadata claims, four sampling rates and both reader classes, is opened with the real reader and compared with the file's own prefix. Bounded exhaustive: nothing is sampled inside the box.",
             note="content is a fixed byte ramp; compressed case realised as .ch/.meta disagreement; box sizes in evidence", ref="3/C11"),
 "C17": dict(engine="E1", technique="exhaustive enumeration of all (length, window, overlap) triples in a box against the definitions",
             text="All 832000 triples ns<=400, nswin<=64, overlap<nswin (thorough: 640/96) are run through the real WindowGenerator; cover, overlap, count, centres, valid partition and splice sum are compared with definitions written from the property text.",
             note="large triples beyond the box are a seeded sample; odd overlaps may be rejected by firstlast_valid (documented precondition)", ref="3/C17"),
 "C18": dict(engine="E1", technique="exhaustive enumeration of all lengths / length pairs; linear operators decided on the full impulse basis",
             text="Every (nx,nw) in [1,300]^2 (both modes, impulse basis of the shorter argument), every n<=600 (2048) for spectra helpers on every axis of 1-3-D arrays, every n<=1e5 (1e6) for the fast size, every n<=300 for the filters on the impulse basis and every n<=64 for the explicit DFTs are compared with numpy/scipy definitions.",
             note="seeded content for the non-basis argument; 1e-9 relative tolerance for FFT round-off", ref="3/C18"),

 "C10": dict(engine="E1", technique="exhaustive enumeration of all 65536 sync words and of all binary event trains up to a length bound",
             text="All 65536 words go through split_sync in several shapes and through Reader.read_sync for imec/nidq, bin/cbin recordings; every 0/1 train of length 2..14 (16) goes through fronts/rises/falls in 1-D and 2-D along both axes, every train over {0,1,2} with step thresholds and analog mode, and all trains are written on each of the 16 lines of a recording and recovered end to end.",
             note="thresholded analog lines compared on windows with a known floor (percentile removal is data dependent by design)", ref="3/C10"),
 "C12": dict(engine="E1", technique="exhaustive enumeration of recording lengths around every window seam x five window sizes x two layouts",
             text="For NP2.1 and NP2.4 layouts and every recording length within 14 samples of a window seam (thorough: every length 300..3100) the real converter is run with five window sizes; LF length ceil(n/12), sync = every 12th word, pairwise window independence within 1 LSB, equality with low-pass(whole trace)[::12] within 1 LSB away from the edges, 2500 Hz / written channel counts in the metadata and the reader's shape are checked.",
             note="AP content is fixed seeded broadband; 30 LF samples at each file edge excluded from the whole-trace comparison", ref="3/C12"),
 "C13": dict(engine="E1+E3", technique="exhaustive enumeration of peak channels/positions/spike trains, and of every execution order of the chunk tasks under a controlled executor with a write log",
             text="Array level: every peak channel of 24-site NP1/NP2 geometries x 3 radii x every spike position that fits. Table level: every assignment of 7 margin spike times to two units x max_wf 1-4 x 3 seeds. File level: the real extract_wfs_cbin runs with joblib.Parallel replaced by an executor that runs the chunk tasks in a chosen order and with the shared traces memmap behind a proxy that logs writes and forbids reads; for 5 chunk sizes every permutation of the tasks (<=5 chunks; rotations above) is executed, rows are compared with the source windows, table/traces/channels/templates row by row, files across chunk sizes and orders byte for byte, and the loader against the saved rows. One free-running real-joblib run is a conformance point.",
             note="file level uses preprocess_steps=[] (exact equality); each task has exactly one shared write, so task permutations are all interleavings of shared operations", ref="3/C13"),
 "C14": dict(engine="E1", technique="exhaustive enumeration of all waveforms of length 6-7 (8) over 5-value alphabets (1 channel) and 3-value alphabets (2-3 channels)",
             text="Every admissible waveform (largest deflection not on the first sample) of length 6 and 7 over {-3,-1,0,1,2} and {-2,-1,0,1,3}, and every 2-channel waveform of length 5 over {-2,0,1}, is run through the real compute_spike_features in one batch, reordered batches, scaled batches, channel-permuted batches and singleton batches; each row is compared with a tie-tolerant per-waveform reference (extremum/swap, ordering, half-peak points, recovery fallback). A realistic family (model spike, both polarities, noise, NaN channels, extrema on the last samples, lengths 10-200, 1-40 channels) is added.",
             note="value alphabets are small; ties accepted in any consistent way; realistic family is fixed seeded content", ref="3/C14"),
 "C15": dict(engine="E1", technique="exhaustive enumeration of label vectors / bad-channel clusters and of every fault position and top-block size",
             text="interpolate_bad_channels on all 4^6 label vectors of the first six sites and on every <=3-subset x {dead,noisy} labelling of the first/last 12 sites of NP1/NP2/NP2.4 geometries with constant, ramp and seeded data (bad rows carry absurd values): non-bad rows bit-identical, repaired rows inside the range of the nearby non-bad rows, zeros without neighbours. detect_bad_channels on a coherent background with a silent / noisy channel at every position 0..383 and a top block of every size 0..40: exactly the injected labels. detect_bad_channels_cbin = per-channel mode over batches on bin and cbin files.",
             note="detection background is a fixed seeded recipe; silent channel at the last index accepted as dead or outside; open known finding for a silent channel at index 0", ref="3/C15"),
 "C16": dict(engine="E1", technique="exhaustive enumeration of (channel count, count over threshold) x boundary placements, and of all flag patterns up to a length bound",
             text="For every nc in 1..40 and 100/384/400 and every count k=0..nc of channels one ulp below/at/above 98% of range (and just below/above the slew limit) the flags are compared with an exact Fraction comparison; every 0/1 flag pattern of length <=12 (14) x 10 taper widths is realised by four different recordings and the mute gain is checked for range, zeros on flags, ones beyond the half-width and dependence on the flags only.",
             note="exactly-at-the-slew-limit is not asserted (statement 'exceed' vs code '>='); proportions are simple rationals", ref="3/C16"),
 "C19": dict(engine="E1", technique="exhaustive enumeration of missing-event placements (deviation bounded: <=1 per side, <=2 on one side) x drift x offset x jitter x mode on fixed base trains",
             text="For a 30-event irregular train every placement of at most one missing event on each side (961 placements) is crossed with 5 drifts, 6 offsets, jitter on/off and both fitting modes (115k calls of the real sync_timestamps); every pair of missing events on one side with 0/1 on the other likewise on a reduced grid; a 100-event train on a stride (thorough: every placement). Returned pairs must be true correspondences, nearly all must be returned, the map must be within 2 ms at held-out events and the drift within 5 ppm.",
             note="event times are a fixed deterministic irregular family (VERIF_SEED rotates it): the spacing dimension is not enumerated", ref="3/C19"),
 "C20": dict(engine="E1", technique="exhaustive enumeration of layouts, lengths, window/order pairs, NaN patterns, small spike trains x chunk sizes, label vectors",
             text="Every rectangular layout 1-4 columns x 4-24,32,40 rows (thorough: all 4-40) at full rank and single plane waves at rank one through cadzow.denoise and svd_denoise_npx; lp and rolling_window on constants of every length <=200; non_uniform_savgol on polynomials of every degree <= order for every (window, order); every NaN pattern of <=2 (3) NaNs; every multiset of <=3 spikes per sorter (2 sorters) / <=2 (3 sorters) over a bin lattice x 7 chunk sizes; every label vector in {0,1,2}^5 for stack.",
             note="'reduces noise' decided on fixed seeded content; Venn equality across chunk sizes required only for multiples of the bin", ref="3/C20"),
}

# clauses added after the first version of each check (appended to the level text)
EXTRA = {
 "C01": " Also: configurations without a sync channel, selector results kept while later reads happen (no aliasing), geometry attributes against the model.",
 "C02": " Also: negative steps on compressed files, compression without the post-check, decompression onto an existing .bin (refused unchanged or complete).",
 "C03": " Also: a second split of the same session (rerun) and a long recording spanning many windows.",
 "C04": " Also: a session whose metadata claims fewer samples than the file holds, two process() calls on the same converter object, and the NP2.4_shank key / stream type of every shank file.",
 "C05": " Also: labels anywhere on the probe (dead/noisy patterns, NPultra), long arrays, and forwarding of every documented argument by car/kfilt/fk.",
 "C06": " Also: stale longer output / QC files in the output folder, seams bound by object identity with a black-box fallback; append mode x worker counts, recordings no longer than one batch, compute_rms off, float32 output, non-symmetric whitening matrices, sample shifts given explicitly, and a second run over the outputs of the first (header history).",
 "C07": " Also: re-use of the same shifts array across calls, stacked inputs.",
 "C08": " Also: NP2.4 selections starting at rows 0 and 600 and a low-row NP2.4 layout; full-probe layouts of every kind.",
 "C09": " Also: metadata sharing gain / site tables but differing in range, max-int, rate, duration read one after the other in one process; IMRO tables listing more channels than are saved; integers above 2^53; configurations without a sync channel, values actually consumed by the reader (used), and every entry of the shipped fixture metadata files.",
 "C10": " Also: repeated extraction from the same reader (twice), step thresholds.",
 "C11": " Also: three opening modes (offline / online / ignore_warnings), a .ch whose sampling rate differs by 1e-4 relative, deferred opening (Reader(open=False) then open()), int16 and other sample formats.",
 "C12": " Also: a sweep over window sizes on one recording, a second conversion of the same session, and sub-range reads of the LF file.",
 "C13": " Also: recordings whose length is not a multiple of the chunk, a second recording extracted at the same path after the first was removed, compressed input, wfs table padding.",
 "C15": " Also: bad channels lying inside the outside-brain block, geometry given as a sequence, detection on files with 7 non-overlapping batches where one channel's mode differs from its median.",
 "C16": " Also: repeated calls with the same arrays, zero-crossing slew steps, both rules at once against reference flags.",
 "C17": " Also: large triples beyond the box (fixed family).",
 "C18": " Also: sequences of filter calls sharing a frequency-scale result (no hidden state between calls), cosine tapers.",
 "C19": " Also: maps kept from earlier calls stay valid after later calls; 300-event trains over > 2000 s at +-100 ppm.",
 "C20": " Also: savgol on an irregular lattice of abscissae, stacking with repeated labels.",
}

# second build session: fault kinds, object histories, presentation classes (memory layout / dtype), file names
EXTRA2 = {
 "C02": " Every deviation point is explored with two fault kinds: the process is killed there, or the operation fails there with an I/O error (an ordinary exception seen by the library's own handlers); a third kind damages one compressed chunk on its way to the disk (the default verification pass must notice before anything carries the final name).",
 "C03": " Also: the same converter object re-initialised (same / another window) before a forced re-split.",
 "C04": " Every deviation point of first-level runs (thorough: all runs) is also explored with an injected I/O error instead of a kill; oracle-relevant history facts are part of the state identity; originals whose file name has no '.ap.' component or contains 'ap' elsewhere; a run that kills the interpreter (e.g. SIGBUS after truncating a mapped file) is reported as a violation, not a hang.",
 "C05": " Clause layouts: every public call x array argument x memory layout (Fortran order, strided view, negative strides, read-only, offset view) and dtype gives the result of the plain call and leaves its arguments untouched.",
 "C07": " Clause layouts: memory layouts and float32/float64 presentations of every argument; results do not alias arguments.",
 "C08": " Also: per-shank files written by the real converter (both bands, both encodings) opened through the Reader: geometry = the parent's restricted to the shank, one entry per recorded channel.",
 "C10": " Also: analog lines with 2.5 % glitch samples below their floor; clause layouts (dtypes int8..int64, uint16 words, strided / Fortran inputs).",
 "C11": " Also: metadata still in progress (no fileSizeBytes / fileTimeSecs, like the shipped while-acquiring fixture) for the online reader; one reader object closed and re-opened over every 3-step history of 6 file sizes (offline / online, opened at construction or later).",
 "C12": " Also: the same converter object re-initialised with another window before a forced re-conversion.",
 "C13": " Also: spike times as int64 / uint64 / int32 / uint32 arrays; coincident spikes of two units on the same peak channel; seams bound by object identity, public-entry-point fallback for the table clause.",
 "C14": " Also: every enumerated integer-valued batch handed over as int16 / int32 / float32 (same features); clause layouts.",
 "C15": " Also: files with blank (all-zero) batches and an intermittently silent channel; a non-finite sample on a far-away good channel must not reach repaired channels; clause layouts.",
 "C16": " Clause layouts: memory layouts / float32 presentations of the data and of the per-channel range.",
 "C17": " Also: the sampling rate of tscale as int, float and numpy int16 / uint16 / int32 / float32 / float64 scalars.",
 "C18": " Clause layouts: every helper x argument x memory layout / dtype, integer signals with a real kernel.",
 "C19": " Also: the caller overwrites its own time arrays after the fit and then uses the kept map; clause layouts.",
 "C20": " Clause layouts: every utility x argument x memory layout / dtype (spike times as int32 / uint64 ...), arguments untouched, results not aliasing arguments.",
}

EXTRA3 = {
 "C02": " Clause reader-options: ignore_warnings x sort x metadata announcing more / fewer samples than the flat or compressed data hold.",
 "C03": " Clause call-histories: every sequence (4 calls quick / 5 thorough) of process(), process(overwrite=True), new converter object and init_params() after a first split; files checked after every call.",
 "C06": " Beyond the orientation cap the conflict orientations are enumerated deviation-bounded (0, 1, 2 ... pairs against the default order, and mirrored) instead of being given up; the evidence reports the levels completed.",
 "C08": " Also: the original-index attribute of split geometries (sorted / unsorted, through geometry_from_meta and through the Reader) and the library's restriction function for every shank of the probe, present or not.",
 "C10": " Also: step thresholds and analog mode on 2-D arrays along either axis (all trains over {0,1,2}).",
 "C12": " Clause call-histories: every call sequence on converter objects after a first conversion; the LF stream on disk checked after every call.",
 "C13": " Also: padding value (number of channels / -1) x NaN row (added by the call / carried by the array); spike trains with silent stretches longer than a chunk at the start, middle and end.",
 "C14": " Clause rates: 11 sampling rates x 7 recovery durations, peaks at every position.",
 "C15": " Also: label vectors without a single good channel (all 3^6 vectors over dead / noisy / outside on the first six sites, the rest outside or dead; bad tips below an outside block).",
 "C17": " Clause object-histories: every sequence (depth 3 / 4) of complete, abandoned, nested and failing passes, time scales, valid windows, splicing and slices on one generator object.",
 "C20": " Also: svd_denoise_npx at full rank for every split of 2..48 (and 96, 385) channels into collections of unequal sizes; label vectors with as many values as traces.",
}

EXTRA4 = {
 "C01": " Also: arrays of sample indices in int16 / uint16 / uint8 / int32 / uint32; clause folder-neighbours (UUID dataset names next to another acquisition's metadata, data files symlinked into a store, band names in folder names).",
 "C02": " Also: numpy-integer and one-channel single-sample selectors; entry points x place (plain, symbolic link into a store, UUID names + decoy metadata, relative path).",
 "C03": " Clause value-patterns: zero stretches longer than two windows, rails, constants, calibrated sampling rates, AP file names without the dotted band, with and without the converter's post-check.",
 "C04": " Clause single-runs: 60013-sample recordings at calibrated rates and conversions restricted to a subset of the shanks with delete_original=True.",
 "C05": " Also: recorded data skewed with physical ADC delays written independently of the library's table; raw integer counts as a presentation class; referencing called with the destriper's option dictionary; gain control on constant / rail / partly silent rows.",
 "C06": " Also: scalar whitening amplitude, recordings at 2.5 kHz / 20 kHz / calibrated rates.",
 "C08": " Clause folder-neighbours (shared with C01).",
 "C09": " Also: durations written with a few decimals; metadata files not called *.meta next to a decoy of the same stem.",
 "C10": " Also: threshold exactly 0; nidq gains other than 1; the data file as a symbolic link into a store holding other metadata.",
 "C11": " Also: zero-filled tails and all-zero files; compressed streams opened through symbolic links.",
 "C12": " Also: signals above the 13-bit ADC range; extreme sync words on LF-sampled positions; clause folder-neighbours (shared with C01).",
 "C13": " Also: loader asked for indices only some units have, with decoy datasets lying in the folder; a fan-out that hands joblib no task is judged by its result.",
 "C14": " Also: NaN-padded batches as non-contiguous views; extraction under np.errstate(all='raise').",
 "C15": " Also: calibrated AP sampling rates; band names and dots in folder names; a moderately noisy channel in the file clause.",
 "C16": " Also: taper width 0; the same relative path under two working directories (range_volts end to end).",
 "C17": " Clause slice-array: windows cut out of 1-D / 2-D / 3-D arrays along every axis; object histories with nested and lock-step generators.",
 "C18": " Also: band-pass corners at zero frequency.",
 "C19": " Clause close-pair: linear mode on a 300-event train with a close pair of events carrying opposite extreme jitter at every position.",
 "C20": " Clause venn-dense: more than 255 (thorough: 65535) spikes of one sorter in one time x channel bin.",
}

ALL = ["C%02d" % i for i in range(1, 21)]
PENDING_REASON = "check not built yet in this round (planned, see DESIGN.md section 3); no claim is made until it is"

def main():
    checks = []
    for pid in ALL:
        if pid not in CHECKS:
            continue
        c = CHECKS[pid]
        checks.append({
            "property_id": pid,
            "quick_cmd": "%s /verif/run.py %s --tier quick" % (PY, pid),
            "thorough_cmd": "%s /verif/run.py %s --tier thorough" % (PY, pid),
            "evidence_file": "/verif/evidence/%s.json" % pid,
            "replay_cmd_template": "%s /verif/run.py %s --replay {path}" % (PY, pid),
            "engine": c["engine"],
            "level_claimed": {"category": c.get("category", "model_checking"), "text": c["text"] + EXTRA.get(pid, "") + EXTRA2.get(pid, "") + EXTRA3.get(pid, "") + EXTRA4.get(pid, ""), "design_ref": "DESIGN.md " + c["ref"]},
            "level_note": c["note"],
            "technique": c["technique"],
        })
    m = {
        "version": 1,
        "setup_cmd": "%s /verif/selftest.py" % PY,
        "hooks": {
            "guard": "IBL_NEUROPIXEL_VERIF",
            "enable": "no hook is compiled into the repository: all seams are bound from outside at run time (module attributes, audit hooks); checks import /repo/src directly (editable install), so they always see the current working tree",
            "baseline_off_cmd": "cd /repo && /venv/bin/python -m pytest -ra -q -p no:cacheprovider --timeout=900 --continue-on-collection-errors",
            "source_commits": [],
            "add_only": True,
        },
        "engines": [
            {"name": "E1", "path": "/verif/mc/engine.py", "serves_properties": [p for p in ALL if CHECKS.get(p, {}).get("engine", "").startswith("E1")],
             "kind_free_text": "sharded exhaustive box enumeration of inputs/configurations/truncation points on the real code against boring reference models"},
            {"name": "E2", "path": "/verif/mc/histories.py", "serves_properties": [p for p in ALL if "E2" in CHECKS.get(p, {}).get("engine", "")],
             "kind_free_text": "explicit-state BFS over operation histories on a real scratch directory; at every filesystem deviation point a crash (process killed) and an I/O error (operation fails) are injected"},
            {"name": "E3", "path": "/verif/mc/sched.py", "serves_properties": [p for p in ALL if "E3" in CHECKS.get(p, {}).get("engine", "")],
             "kind_free_text": "controlled baton scheduler enumerating Mazurkiewicz traces of the joblib worker bodies over shared files"},
        ],
        "checks": checks,
        "not_applicable": [{"property_id": p, "reason": PENDING_REASON} for p in ALL if p not in CHECKS],
        "notes": "All checks drive the real implementation under /repo/src; evidence is rewritten on every run; known findings in /verif/known_findings.json.",
    }
    with open(os.path.join(V, "MANIFEST.json"), "w") as f:
        json.dump(m, f, indent=1)
    print("wrote MANIFEST.json with %d checks, %d pending" % (len(checks), len(m["not_applicable"])))

if __name__ == "__main__":
    main()
