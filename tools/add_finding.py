#!/usr/bin/env python3
"""add_finding.py fixed|open <prop> <key> <what...>   (fixed: uses /repo HEAD as the commit)"""
import json, subprocess, sys
status, prop, key = sys.argv[1:4]; what = " ".join(sys.argv[4:])
p = '/verif/known_findings.json'; d = json.load(open(p))
if status == 'fixed':
    h = subprocess.check_output(['git', '-C', '/repo', 'log', '--format=%h', '-1']).decode().strip()
    d['findings'].append({"property": prop, "key": key, "status": "fixed", "commit": h, "line": "fixed: property=%s %s %s" % (prop, h, what)})
else:
    d['findings'].append({"property": prop, "key": key, "status": "open", "what": what})
json.dump(d, open(p, 'w'), indent=1)
