#!/usr/bin/env python3
"""
Behaviour-preserving edits (refactorings, equivalent reformulations, different but correctly rounded arithmetic) applied one at a time to a
scratch worktree: every check named must stay silent (rc=0).  usage: negcontrols.py [name-substring]
"""
import os, subprocess, sys
WT = "/tmp/mut/self"
N = [
 ("read-float32-product", ["C01", "C02", "C11", "C13"], "src/spikeglx.py",
  "darray *= self.channel_conversion_sample2v[self.type][csel]", "darray *= self.channel_conversion_sample2v[self.type][csel].astype(np.float32)"),
 ("convolve-scipy", ["C18", "C05"], "src/ibldsp/fourier.py",
  "    if mode == \"full\":\n        return xw\n", "    if mode == \"full\":\n        return xw + 0.0\n"),
 ("saturation-counts", ["C16", "C06"], "src/ibldsp/voltage.py",
  "saturation = np.mean(np.abs(data) > max_voltage * 0.98, axis=0)", "saturation = np.sum(np.abs(data) > max_voltage * 0.98, axis=0) / data.shape[0]"),
 ("window-while-rewrite", ["C17", "C12"], "src/ibldsp/utils.py",
  "            last = first + self.nswin\n            last = min(last, self.ns)", "            last = min(first + self.nswin, self.ns)"),
 ("reader-rename-raw", ["C01", "C03", "C04", "C10", "C11", "C12"], "src/spikeglx.py", "self._raw", "self._data"),
 ("split-sync-bitops", ["C10"], "src/spikeglx.py",
  "    out = np.unpackbits(sync_tr.view(np.uint8)).reshape(sync_tr.size, 16)\n    out = np.flip(np.roll(out, 8, axis=1), axis=1)\n    return np.int8(out)",
  "    w = sync_tr.reshape(-1).view(np.uint16).astype(np.int64)\n    out = (w[:, None] >> np.arange(16)[None, :]) & 1\n    return np.int8(out)"),
 ("fshift-fft-numpy", ["C07", "C05"], "src/ibldsp/fourier.py", "        W = np.real(scipy.fft.irfft(W, ns, axis=axis))", "        W = np.fft.irfft(W, ns, axis=axis)"),
 ("meta-write-order", ["C09", "C03"], "src/spikeglx.py",
  "            if isinstance(val, list):\n                val = \",\".join([str(int(v)) for v in val])", "            if isinstance(val, (list, tuple)):\n                val = \",\".join(\"%d\" % int(v) for v in val)"),
 ("interp-weights-sum", ["C15"], "src/ibldsp/voltage.py",
  "        data[i, :] = gp.matmul(weights[imult], data[imult, :])", "        data[i, :] = gp.sum(weights[imult][:, None] * data[imult, :], axis=0)"),
 ("converter-rename-step", ["C04", "C03"], "src/neuropixel.py", "_split2shanks", "_write_shanks"),
 ("features-argmax-order", ["C14"], "src/ibldsp/waveforms.py",
  "    max_vals = np.max(np.abs(arr_in[:, :]), axis=1)\n    indx_maxs = np.argmax(np.abs(arr_in[:, :]), axis=1)", "    absv = np.abs(arr_in)\n    indx_maxs = np.argmax(absv, axis=1)\n    max_vals = np.take_along_axis(absv, indx_maxs[:, None, :], axis=1)[:, 0, :]"),
 ("venn-loop", ["C20"], "src/ibldsp/spiketrains.py", "    for ch in tqdm.tqdm(range(num_chunks)):", "    for ch in range(num_chunks):"),
 ("destripe-file-dot", ["C06"], "src/ibldsp/voltage.py", "chunk[:, :ncv] = np.dot(chunk[:, :ncv], wrot)", "chunk[:, :ncv] = chunk[:, :ncv] @ wrot"),
 ("sync-fit-degree", ["C19"], "src/ibldsp/utils.py", "fcn_a2b = lambda x: x * (1 + ab[0]) + ab[1]  # noqa", "fcn_a2b = lambda x, ab=ab: x + x * ab[0] + ab[1]  # noqa"),
 ("geometry-sort-stable", ["C08", "C01"], "src/spikeglx.py", "        inds = np.lexsort(sort_keys.T)", "        inds = np.lexsort((sort_keys[:, 0], sort_keys[:, 1], sort_keys[:, 2]))"),
 ("wfs-read-once", ["C13"], "src/ibldsp/waveform_extraction.py", "    for i in fun(nwf):\n        wfs[i, :, :] = arr[:, sind[i]][cind[i], :]", "    for i in fun(nwf):\n        wfs[i, :, :] = arr[cind[i]][:, sind[i]]"),
]

def sh(cmd):
    return subprocess.run(cmd, shell=True, capture_output=True, text=True)

def main():
    sel = sys.argv[1] if len(sys.argv) > 1 else ""
    sh("git -C %s checkout -q -- ." % WT)
    sh("git -C %s checkout -q --detach $(git -C /repo rev-parse HEAD)" % WT)
    for name, props, f, old, new in N:
        if sel not in name:
            continue
        p = os.path.join(WT, f)
        s = open(p).read()
        if old not in s:
            print("%-26s SKIP (pattern not found)" % name); continue
        open(p, "w").write(s.replace(old, new))
        chk = sh("cd %s && PYTHONPATH=%s/src /venv/bin/python -c 'import spikeglx, neuropixel, ibldsp.voltage, ibldsp.waveforms, ibldsp.waveform_extraction'" % (WT, WT))
        if chk.returncode != 0:
            print("%-26s BROKEN-IMPORT %s" % (name, chk.stderr.strip().splitlines()[-1][:100]))
        else:
            for prop in props:
                r = sh("VERIF_REPO=%s VERIF_OUT=/tmp/mutout/neg /venv/bin/python /verif/run.py %s --tier quick" % (WT, prop))
                keys = [l.strip() for l in r.stderr.splitlines() if l.strip().startswith("[C")][:3]
                print("%-26s %s rc=%d %s %s" % (name, prop, r.returncode, "silent" if r.returncode == 0 else "FALSE-ALARM" if r.returncode == 1 else "HARNESS", " ".join(keys)))
                sys.stdout.flush()
        open(p, "w").write(s)
    sh("git -C %s checkout -q -- ." % WT)

main()
