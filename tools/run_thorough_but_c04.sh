#!/bin/bash
# thorough tier of every check except C04 (whose thorough tier alone takes ~100 min and is run separately)
HERE=$(cd "$(dirname "$0")/.." && pwd); cd $HERE
for p in C01 C02 C03 C05 C06 C07 C08 C09 C10 C11 C12 C13 C14 C15 C16 C17 C18 C19 C20; do
  s=$(date +%s); out=$(VERIF_SEED=${1:-0} /venv/bin/python $HERE/run.py $p --tier thorough 2>&1); rc=$?; e=$(date +%s)
  echo "$p rc=$rc $((e-s))s $(echo "$out" | grep -c '^VIOLATION') violations; $(echo "$out" | grep -E 'HARNESS|VIOLATION' | head -2 | tr '\n' ' ')"
done
