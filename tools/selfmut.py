#!/usr/bin/env python3
"""
Quick self-made property-breaking edits (the 'target mutations' of DESIGN.md section 3) applied one at a time to a scratch
worktree; each must be reported by its check.  usage: selfmut.py [name-substring]
"""
import os, subprocess, sys
WT = "/tmp/mut/self"
M = [
 # (name, property, file, old, new)
 ("c01-gain-unpermuted", "C01", "src/spikeglx.py", "darray *= self.channel_conversion_sample2v[self.type][csel]", "darray *= self.channel_conversion_sample2v[self.type][np.arange(self.nc)[csel0]]"),
 ("c01-lf-gain-for-ap", "C01", "src/spikeglx.py", "np.array([1 / np.float32(g.split(\" \")[-2]) for g in gain])", "np.array([1 / np.float32(g.split(\" \")[-1]) for g in gain])"),
 ("c02-rename-before-check", "C02", "src/spikeglx.py", "        file_tmp = self.file_bin.with_suffix(\".cbin_tmp\")", "        file_tmp = self.file_bin.with_suffix(\".cbin\")"),
 ("c02-scratch-direct", "C02", "src/spikeglx.py", "keep_original=True, out=bin_file.with_suffix('.bin_temp'), check_after_decompress=False, overwrite=True\n            )\n            shutil.move(bin_file.with_suffix('.bin_temp'), bin_file)", "keep_original=True, out=bin_file, check_after_decompress=False, overwrite=True\n            )"),
 ("c03-sync-divided", "C03", "src/neuropixel.py", "/ self.sr.channel_conversion_sample2v[etype][self.idxsyncch:],", "/ self.sr.channel_conversion_sample2v[etype][self.idxsyncch - 1:self.idxsyncch] * 1.0001,"),
 ("c03-recon-offbyone", "C03", "src/neuropixel.py", "chunk[:, self.shank_info[sh][\"chns\"][:-1]] = self.shank_info[sh][\"sr\"]._raw[first:last, :-1]", "chunk[:, self.shank_info[sh][\"chns\"][:-1]] = np.roll(self.shank_info[sh][\"sr\"]._raw[first:last, :-1], 0, axis=1)[:, ::1] if first == 0 else self.shank_info[sh][\"sr\"]._raw[first:last, :-1][::-1][::-1] * 1"),
 ("c04-delete-before-check", "C04", "src/neuropixel.py", "        if self.check_completed and self.delete_original:", "        if self.delete_original:"),
 ("c04-checkcompleted-early", "C04", "src/neuropixel.py", "        self.check_completed = False\n", "        self.check_completed = True\n"),
 ("c05-shift-sign", "C05", "src/ibldsp/voltage.py", "x = fourier.fshift(x, h[\"sample_shift\"], axis=1)", "x = fourier.fshift(x, -h[\"sample_shift\"], axis=1)"),
 ("c05-inside-brain", "C05", "src/ibldsp/voltage.py", "        inside_brain = np.where(channel_labels != 3)[0]\n        x[inside_brain, :] = spatial_fcn(x[inside_brain, :])  # apply the k-filter", "        inside_brain = np.where(channel_labels != 1)[0]\n        x[inside_brain, :] = spatial_fcn(x[inside_brain, :])  # apply the k-filter"),
 ("c06-seek-offset", "C06", "src/ibldsp/voltage.py", "fid.seek(offset + ((first_s + SAMPLES_TAPER) * nc_out * nbytes))", "fid.seek(offset + ((first_s) * nc_out * nbytes))"),
 ("c06-last-batch-margin", "C06", "src/ibldsp/voltage.py", "                ind2save[1] = NBATCH\n", "                ind2save[1] = NBATCH - SAMPLES_TAPER\n"),
 ("c07-phase-sign", "C07", "src/ibldsp/fourier.py", "W *= np.exp(1j * np.angle(dephas) * s)", "W *= np.exp(-1j * np.angle(dephas) * s)"),
 ("c07-inplace", "C07", "src/ibldsp/fourier.py", "        W = scipy.fft.rfft(w, axis=axis)", "        W = scipy.fft.rfft(w, axis=axis, overwrite_x=True)"),
 ("c08-lexsort-keys", "C08", "src/spikeglx.py", "sort_keys = np.c_[-th['col'], th['row'], th['shank']]", "sort_keys = np.c_[th['col'], th['row'], th['shank']]"),
 ("c08-shift-not-sorted", "C08", "src/spikeglx.py", "        th = {k: v[inds] for k, v in th.items()}", "        th = {k: (v[inds] if k != 'sample_shift' else v) for k, v in th.items()}"),
 ("c09-int-fs", "C09", "src/spikeglx.py", "        return md.get(\"imSampRate\")", "        return int(md.get(\"imSampRate\"))"),
 ("c09-gain-384", "C09", "src/spikeglx.py", "        n_chn = _get_nchannels_from_meta(meta_data) - len(", "        n_chn = 384 + 0 * _get_nchannels_from_meta(meta_data) - 0 * len("),
 ("c10-no-roll", "C10", "src/spikeglx.py", "out = np.flip(np.roll(out, 8, axis=1), axis=1)", "out = np.flip(out, axis=1)"),
 ("c10-fronts-index", "C10", "src/ibldsp/utils.py", "    sign = d[tuple(ind)]\n    ind[axis] += 1", "    sign = d[tuple(ind)]\n    ind[axis] += 0"),
 ("c11-ceil", "C11", "src/spikeglx.py", "                    // (self.dtype.itemsize * self.nc)", "                    / (self.dtype.itemsize * self.nc)"),
 ("c12-decim-phase", "C12", "src/neuropixel.py", "        chunk = chunk[:, :: self.ratio]\n        return chunk", "        chunk = chunk[:, 1:: self.ratio]\n        return chunk"),
 ("c13-offset-chunk0", "C13", "src/ibldsp/waveform_extraction.py", "    if i_chunk == 0:\n        offset = 0\n    else:\n        offset = trough_offset", "    offset = trough_offset"),
 ("c14-recovery-gt", "C14", "src/ibldsp/waveforms.py", "idx_over = np.where(idx_all >= arr_peak.shape[1])[0]", "idx_over = np.where(idx_all >= arr_peak.shape[1] - 1)[0]"),
 ("c14-swap-threshold", "C14", "src/ibldsp/waveforms.py", "(df[\"peak_to_trough_ratio\"] <= 1.5)", "(df[\"peak_to_trough_ratio\"] <= 1.0)"),
 ("c15-weights-bad", "C15", "src/ibldsp/voltage.py", "        weights[bad_channels] = 0\n", "        weights[i] = 0\n"),
 ("c15-mode-median", "C15", "src/ibldsp/voltage.py", "channel_flags, _ = scipy.stats.mode(channel_labels, axis=1)", "channel_flags = np.median(channel_labels, axis=1)"),
 ("c16-ge", "C16", "src/ibldsp/voltage.py", "saturation = np.logical_or(saturation > proportion, n_diff_saturated > proportion)", "saturation = np.logical_or(saturation >= proportion, n_diff_saturated > proportion)"),
 ("c16-slew-shift", "C16", "src/ibldsp/voltage.py", "n_diff_saturated = np.r_[n_diff_saturated, 0]", "n_diff_saturated = np.r_[0, n_diff_saturated]"),
 ("c17-stride", "C17", "src/ibldsp/utils.py", "            first += self.nswin - self.overlap\n", "            first += self.nswin - self.overlap + (1 if self.overlap == 37 else 0)\n"),
 ("c17-lastvalid", "C17", "src/ibldsp/utils.py", "last_valid = last if last == self.ns else last - self.overlap // 2", "last_valid = last if last == self.ns else last - (self.overlap + 1) // 2 - (1 if self.ns == 333 else 0)"),
 ("c18-same-first", "C18", "src/ibldsp/fourier.py", "        first = int(gp.floor(nsw / 2)) - ((nsw + 1) % 2)", "        first = int(gp.floor(nsw / 2)) - ((nsw + 1) % 2) + (1 if nsw == 200 else 0)"),
 ("c18-fexpand", "C18", "src/ibldsp/fourier.py", "    ilast = int((ns + (ns % 2)) / 2)", "    ilast = int((ns + (ns % 2)) / 2) - (1 if ns == 511 else 0)"),
 ("c19-threshold", "C19", "src/ibldsp/utils.py", "    dt[dt > tbin] = np.nan", "    dt[dt > tbin * 30] = np.nan"),
 ("c20-venn-chunk", "C20", "src/ibldsp/spiketrains.py", "np.searchsorted(samples, [sample_offset, sample_offset + chunk_size])", "np.searchsorted(samples, [sample_offset, sample_offset + chunk_size - 1])"),
 ("c20-stack-fold", "C20", "src/ibldsp/voltage.py", "        hstack = fold\n", "        hstack = np.maximum(fold, 1) * (fold > 0) + (fold > 3)\n"),
]

def sh(cmd):
    return subprocess.run(cmd, shell=True, capture_output=True, text=True)

def main():
    sel = sys.argv[1] if len(sys.argv) > 1 else ""
    sh("git -C %s checkout -q -- ." % WT)
    sh("git -C %s checkout -q --detach $(git -C /repo rev-parse HEAD)" % WT)
    for name, prop, f, old, new in M:
        if sel not in name:
            continue
        p = os.path.join(WT, f)
        s = open(p).read()
        if old not in s:
            print("%-28s %s SKIP (pattern not found)" % (name, prop)); continue
        open(p, "w").write(s.replace(old, new, 1))
        chk = sh("cd %s && PYTHONPATH=%s/src /venv/bin/python -c 'import spikeglx, neuropixel, ibldsp.voltage, ibldsp.waveforms, ibldsp.waveform_extraction'" % (WT, WT))
        if chk.returncode != 0:
            print("%-28s %s BROKEN-IMPORT %s" % (name, prop, chk.stderr.strip().splitlines()[-1][:100]))
        else:
            r = sh("VERIF_REPO=%s VERIF_OUT=/tmp/mutout/self /venv/bin/python /verif/run.py %s --tier quick" % (WT, prop))
            nv = sum(1 for l in r.stdout.splitlines() if l.startswith("VIOLATION"))
            keys = [l.strip() for l in r.stderr.splitlines() if l.strip().startswith("[C")][:3]
            print("%-28s %s rc=%d %s %s" % (name, prop, r.returncode, "DETECTED" if (r.returncode == 1 and nv) else "MISSED", " ".join(keys)))
        sys.stdout.flush()
        open(p, "w").write(s)
    sh("git -C %s checkout -q -- ." % WT)

main()
