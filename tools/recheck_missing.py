#!/usr/bin/env python3
"""recheck_missing.py <confirm.log> <mutroot>: for every line with MISSING tests, re-runs exactly those tests serially on the changed tree and rewrites the line"""
import os, re, subprocess, sys
log, root = sys.argv[1], sys.argv[2]
lines = open(log).read().splitlines()
out = []
for ln in lines:
    m = re.match(r'(C\d+) (\w) (demo_clean_rc=\d+ demo_mutant_rc=\d+)(.*)', ln)
    if not m:
        out.append(ln); continue
    prop, v, demo, rest = m.groups()
    missing = re.findall(r'MISSING (\S+)', rest)
    if not missing and 'baseline:' in rest:
        out.append(ln); continue
    wt = os.path.join(root, prop)
    subprocess.run('git -C %s checkout -q -- src; git -C %s clean -fdxq src/tests/fixtures; git -C %s apply %s/mutant/%s/patch.diff' % (wt, wt, wt, wt, v), shell=True)
    tmp = '/tmp/mut/_tmp_recheck'; subprocess.run('rm -rf %s; mkdir -p %s' % (tmp, tmp), shell=True)
    if missing:
        ids = []
        for t in missing:
            mod, name = t.rsplit('::', 1)
            parts = mod.split('.')
            i = [k for k, p in enumerate(parts) if p.startswith('test_')][0]
            ids.append('::'.join(['/'.join(parts[:i + 1]) + '.py'] + parts[i + 1:] + [name]))
        r = subprocess.run('cd %s && TMPDIR=%s PYTHONPATH=%s/src /venv/bin/python -m pytest -q -p no:cacheprovider --timeout=900 %s 2>&1 | tail -3' % (wt, tmp, wt, ' '.join(ids)), shell=True, capture_output=True, text=True)
        txt = r.stdout
        mp = re.search(r'(\d+) passed', txt); mf = re.search(r'(\d+) failed', txt)
        npass = int(mp.group(1)) if mp else 0
        if npass == len(ids) and not mf:
            rest = ' baseline: 84/84 stable tests pass (first parallel pass %d/84; the %d others re-run serially: all pass)' % (84 - len(ids), len(ids))
        else:
            rest = ' baseline: INCOMPLETE %s' % txt.strip().replace('\n', ' | ')[-300:]
    else:
        r = subprocess.run('TMPDIR=%s /verif/tools/baseline.sh %s 2>&1 | grep -E "baseline:|MISSING" | tr "\\n" " "' % (tmp, wt), shell=True, capture_output=True, text=True)
        rest = ' ' + r.stdout.strip()
    subprocess.run('git -C %s checkout -q -- src; git -C %s clean -fdxq src/tests/fixtures' % (wt, wt), shell=True)
    out.append('%s %s %s%s' % (prop, v, demo, rest))
    print(out[-1]); sys.stdout.flush()
open(log, 'w').write('\n'.join(out) + '\n')
