"""
Engine E3: controlled scheduler for the joblib fan-outs.

`Parallel(n_jobs=p)(delayed(f)(...) for ...)` is replaced by an executor that runs every task as a thread and passes
a baton: exactly one thread runs at a time, and a thread parks at a *scheduling point* immediately before every
operation on a shared file (file write through `ndarray.tofile`, memmap `__setitem__`).  A schedule is the sequence of
worker ids in which the shared operations are performed.  Workers must not read shared files (the proxies turn that
into a HarnessError: an unmodelled dependency).

Exploration enumerates Mazurkiewicz traces directly: the footprint (file, byte range, bytes) of every operation is
recorded in a first execution and asserted identical in every later one; two operations of different workers are
dependent iff they touch the same file, their ranges overlap and the overlapping bytes differ (writes of identical
bytes commute); a trace is an acyclic orientation of the dependent pairs together with program order; one schedule per
trace is executed on the real code.
"""
import hashlib
import itertools
import threading

import numpy as np

from mc.engine import HarnessError


class Op(object):
    __slots__ = ("tid", "seq", "file", "start", "end", "data", "kind")

    def __init__(self, tid, seq, file, start, end, data, kind):
        self.tid, self.seq, self.file, self.start, self.end, self.data, self.kind = tid, seq, file, start, end, data, kind

    def key(self):
        return (self.tid, self.seq, self.file, self.start, self.end, hashlib.sha1(self.data).hexdigest())

    def __repr__(self):
        return "w%d#%d %s[%d:%d]" % (self.tid, self.seq, self.file, self.start, self.end)


class _Worker(object):
    def __init__(self, idx):
        self.idx = idx
        self.sem = threading.Semaphore(0)
        self.done = False
        self.exc = None
        self.pending = None
        self.thread = None
        self.nops = 0


class Scheduler(object):
    def __init__(self):
        self.workers = []
        self.by_ident = {}
        self.main_sem = threading.Semaphore(0)
        self.ops = []              # executed shared operations in execution order
        self.order = []            # worker id per executed scheduling point

    # ---- called from worker threads
    def current(self):
        return self.by_ident.get(threading.get_ident())

    def point(self, desc):
        w = self.current()
        if w is None:
            return              # main thread: not scheduled
        w.pending = desc
        self.main_sem.release()
        w.sem.acquire()

    def log(self, file, start, end, data, kind):
        w = self.current()
        tid = -1 if w is None else w.idx
        seq = 0 if w is None else w.nops
        if w is not None:
            w.nops += 1
        self.ops.append(Op(tid, seq, file, start, end, bytes(data), kind))

    # ---- called from the main thread
    def run(self, tasks, schedule=None):
        """
        tasks: list of (fn, args, kwargs); schedule: list of worker ids, one per scheduling point (None: lowest id first)
        returns list of results; raises nothing for worker exceptions (see .workers[i].exc)
        """
        self.workers = [_Worker(i) for i in range(len(tasks))]
        results = [None] * len(tasks)

        def body(w, fn, a, k):
            self.by_ident[threading.get_ident()] = w
            w.sem.acquire()
            try:
                results[w.idx] = fn(*a, **k)
            except BaseException as e:       # noqa
                w.exc = e
            w.done = True
            w.pending = None
            self.main_sem.release()

        for w, (fn, a, k) in zip(self.workers, tasks):
            w.thread = threading.Thread(target=body, args=(w, fn, a, k), daemon=True)
            w.thread.start()
        # bring every worker to its first scheduling point, one at a time
        for w in self.workers:
            w.sem.release()
            self.main_sem.acquire()
        pos = 0
        while True:
            live = [w for w in self.workers if not w.done]
            if not live:
                break
            if schedule is not None and pos < len(schedule):
                tid = schedule[pos]
                if tid >= len(self.workers) or self.workers[tid].done:
                    raise HarnessError("schedule asks for worker %r at point %d but it has finished: the footprint changed" % (tid, pos))
                w = self.workers[tid]
            elif schedule is not None:
                raise HarnessError("schedule exhausted after %d points but workers %r are still running: the footprint changed"
                                   % (pos, [x.idx for x in live]))
            else:
                w = live[0]
            pos += 1
            self.order.append(w.idx)
            w.sem.release()
            self.main_sem.acquire()
        for w in self.workers:
            w.thread.join(timeout=10)
        return results


# ---------------------------------------------------------------------------- proxies
class FileProxy(object):
    """around a real file opened 'r+b' by a worker; numpy's tofile() goes flush() -> fileno()/tell() -> [write] -> seek(newpos, 0)"""

    def __init__(self, real, sched, label, path):
        self._f = real
        self._s = sched
        self._label = label
        self._path = path
        self._wstart = None

    def flush(self):
        self._s.point("write:%s" % self._label)          # scheduling point right before a write
        self._f.flush()
        self._wstart = self._f.tell()

    def fileno(self):
        return self._f.fileno()

    def tell(self):
        return self._f.tell()

    def seek(self, pos, whence=0):
        if self._wstart is not None and whence == 0:
            start, end = self._wstart, pos
            self._wstart = None
            r = self._f.seek(pos, whence)
            if end > start:
                with open(self._path, "rb") as g:
                    g.seek(start)
                    data = g.read(end - start)
                self._s.log(self._label, start, end, data, "file")
            return r
        self._wstart = None
        return self._f.seek(pos, whence)

    def write(self, data):
        self._s.point("write:%s" % self._label)
        start = self._f.tell()
        n = self._f.write(data)
        self._f.flush()
        self._s.log(self._label, start, start + len(data), data, "file")
        return n

    def read(self, *a):
        raise HarnessError("a worker reads the shared file %s: unmodelled dependency" % self._label)

    def close(self):
        self._wstart = None
        self._f.close()

    def __enter__(self):
        return self

    def __exit__(self, *a):
        self.close()


class MemProxy(object):
    """around a real np.memmap opened 'r+' by a worker"""

    def __init__(self, mm, sched, label):
        self._mm = mm
        self._s = sched
        self._label = label
        self.shape = mm.shape
        self.dtype = mm.dtype

    def __setitem__(self, key, value):
        self._s.point("setitem:%s" % self._label)
        self._mm[key] = value
        if isinstance(key, slice):
            start, stop, step = key.indices(self._mm.shape[0])
            if step != 1:
                raise HarnessError("strided write to the shared memmap: not modelled")
            data = np.ascontiguousarray(self._mm[start:stop]).tobytes()
            self._s.log(self._label, start * self._mm.itemsize, stop * self._mm.itemsize, data, "mmap")
        else:
            raise HarnessError("unsupported shared memmap index %r" % (key,))

    def __getitem__(self, key):
        raise HarnessError("a worker reads the shared memmap %s: unmodelled dependency" % self._label)

    def flush(self):
        self._mm.flush()


# ---------------------------------------------------------------------------- trace enumeration
def footprint(ops):
    per = {}
    for o in ops:
        per.setdefault(o.tid, []).append(o)
    return per


def conflicts(per):
    """pairs of operations of different workers that do not commute: same file, overlapping ranges, different bytes on the overlap"""
    tids = sorted(per)
    out = []
    for a, b in itertools.combinations(tids, 2):
        for x in per[a]:
            for y in per[b]:
                if x.file != y.file:
                    continue
                lo, hi = max(x.start, y.start), min(x.end, y.end)
                if lo >= hi:
                    continue
                if x.data[lo - x.start:hi - x.start] != y.data[lo - y.start:hi - y.start]:
                    out.append((x, y))
    return out


def overlaps(per):
    """all overlapping pairs (any bytes), for the evidence"""
    n = 0
    tids = sorted(per)
    for a, b in itertools.combinations(tids, 2):
        for x in per[a]:
            for y in per[b]:
                if x.file == y.file and max(x.start, y.start) < min(x.end, y.end):
                    n += 1
    return n


def _linearise(nodes, prog, conf, bits):
    succ = {n: list(prog.get(n, [])) for n in nodes}
    for bit, (x, y) in zip(bits, conf):
        a, b = (x.tid, x.seq), (y.tid, y.seq)
        if bit:
            a, b = b, a
        succ[a].append(b)
    # Kahn with a deterministic tie-break (lowest worker id first)
    indeg = {n: 0 for n in nodes}
    for n in nodes:
        for m in succ[n]:
            indeg[m] += 1
    ready = sorted(n for n in nodes if indeg[n] == 0)
    order = []
    while ready:
        n = ready.pop(0)
        order.append(n)
        for m in succ[n]:
            indeg[m] -= 1
            if indeg[m] == 0:
                ready.append(m)
        ready.sort()
    if len(order) != len(nodes):
        return None
    return [t for t, _ in order]


def traces(per, conf, cap=4096):
    """
    one schedule (list of worker ids) per Mazurkiewicz trace: every acyclic orientation of the conflict pairs together with
    program order, linearised.  returns (schedules, n_orientations, n_cyclic, capped).

    When there are more than `cap` orientations the enumeration is deviation-bounded instead of given up: a deviation is one
    conflict pair oriented against the default (lower worker id first); all orientations with 0, 1, 2, ... deviations - and their
    mirror images, counted from the all-reversed orientation - are produced until `cap` orientations have been used.  `capped`
    is then the number of deviations completed + 1 (truthy), so that the caller can report the bound it reached.
    """
    nodes = [(t, i) for t in sorted(per) for i in range(len(per[t]))]
    prog = {}
    for t in per:
        for i in range(len(per[t]) - 1):
            prog.setdefault((t, i), []).append((t, i + 1))
    c = len(conf)
    scheds = []
    ncyc = 0
    if 2 ** c > cap:
        used, done = 0, -1
        for k in range(c + 1):
            level = list(itertools.combinations(range(c), k))
            if used + 2 * len(level) > cap and k > 0:
                break
            for idx in level:
                for mirror in (0, 1):
                    bits = [mirror] * c
                    for i in idx:
                        bits[i] = 1 - mirror
                    used += 1
                    sc = _linearise(nodes, prog, conf, bits)
                    if sc is None:
                        ncyc += 1
                    elif sc not in scheds:
                        scheds.append(sc)
            done = k
        return scheds, 2 ** c, ncyc, done + 1
    for bits in itertools.product((0, 1), repeat=c):
        sc = _linearise(nodes, prog, conf, bits)
        if sc is None:
            ncyc += 1
            continue
        scheds.append(sc)
    return scheds, 2 ** c, ncyc, False


def preemption_bounded(per, bound, limit=None):
    """all schedules with at most `bound` preemptions (the first `limit` of them in depth-first order, if given)"""
    lens = {t: len(per[t]) for t in per}
    tids = sorted(per)
    out = []

    class _Full(Exception):
        pass

    def rec(pos, cur, used, sched):
        if all(pos[t] == lens[t] for t in tids):
            out.append(list(sched))
            if limit is not None and len(out) >= limit:
                raise _Full()
            return
        enabled = [t for t in tids if pos[t] < lens[t]]
        for t in enabled:
            cost = used
            if cur is not None and t != cur and pos[cur] < lens[cur]:
                cost += 1
            if cost > bound:
                continue
            pos[t] += 1
            sched.append(t)
            rec(pos, t, cost, sched)
            sched.pop()
            pos[t] -= 1
    try:
        rec({t: 0 for t in tids}, None, 0, [])
    except _Full:
        pass
    return out


def coverage(per, file, nbytes):
    """(bytes never written, bytes on which two writers disagree) for one file"""
    cnt = np.zeros(nbytes, dtype=np.int32)
    val = np.zeros(nbytes, dtype=np.uint8)
    dis = np.zeros(nbytes, dtype=bool)
    for t in per:
        for o in per[t]:
            if o.file != file:
                continue
            lo, hi = o.start, min(o.end, nbytes)
            if hi <= lo:
                continue
            d = np.frombuffer(o.data, dtype=np.uint8)[:hi - lo]
            seen = cnt[lo:hi] > 0
            dis[lo:hi] |= seen & (val[lo:hi] != d)
            val[lo:hi] = d
            cnt[lo:hi] += 1
    return int(np.sum(cnt == 0)), int(np.sum(dis)), cnt
