"""Helpers around the NP2 converter / reconstructor on small synthetic sessions."""
import gc
import hashlib
import os
import shutil
from pathlib import Path

import numpy as np

from mc import synth

STEM = "_spikeglx_ephysData_g0_t0.imec0"
LABEL = "probe00"


def sites_for(assign):
    """site i sits on shank assign[i], row i // 2, column i % 2"""
    return [(int(s), i // 2, i % 2) for i, s in enumerate(assign)]


def make_session(root, kind, sites, data, vrange=None, maxint=None, fs=30000, label=LABEL):
    """writes <root>/<label>/<STEM>.ap.bin/.meta ; data is (ns, nsites+1) int16 (sync last)"""
    ns = data.shape[0]
    folder = os.path.join(root, label)
    items = synth.meta_items(kind, sites, ns, fs=fs, vrange=vrange, maxint=maxint)
    return Path(synth.write_recording(folder, STEM + ".ap", data, items))


def content(ns, nc, mode="ramp", seed=0):
    i = np.arange(ns, dtype=np.int64)[:, None]
    c = np.arange(nc, dtype=np.int64)[None, :]
    if mode == "ramp":          # every channel runs through the int16 values, decorrelated between channels
        d = (i + 7919 * c) % 65536 - 32768
    elif mode == "broadband":   # random walk + white, within +-3000 counts
        rng = np.random.default_rng(seed + 77)
        walk = np.cumsum(rng.integers(-40, 41, size=(ns, nc)), axis=0)
        walk = walk - walk.mean(axis=0, keepdims=True).astype(np.int64)
        d = np.clip(walk, -2500, 2500) + rng.integers(-500, 501, size=(ns, nc))
    else:
        raise ValueError(mode)
    d = d.astype(np.int16)
    # sync column: all bits vary
    d[:, -1] = ((i[:, 0] * 40503 + 977) % 65536 - 32768).astype(np.int16)
    # the extreme words (0x8000, 0x7FFF, 0xFFFF, 0x0000, 0x8001) on samples that the LF stream keeps (multiples of 12) and next to them
    ext = (-32768, 32767, -1, 0, -32767)
    for j in range(40):
        p0 = 24 + 12 * j
        if p0 + 5 < ns:
            d[p0, -1] = ext[j % 5]
            d[p0 + 5, -1] = ext[(j + 2) % 5]
    return d


def convert(ap_file, nwindow=None, overwrite=False, post_check=True, compress=False, delete_original=False, compress_kwargs=None):
    import neuropixel
    conv = neuropixel.NP2Converter(ap_file, post_check=post_check, compress=compress, delete_original=delete_original)
    if nwindow is not None:
        conv.init_params(nwindow=nwindow)
    try:
        status = conv.process(overwrite=overwrite)
    finally:
        try:
            conv.sr.close()
        except Exception:
            pass
    return status, conv


def release(*objs):
    for o in objs:
        try:
            o.sr.close()
        except Exception:
            pass
    gc.collect()


def sha1(path):
    h = hashlib.sha1()
    with open(path, "rb") as f:
        for b in iter(lambda: f.read(1 << 20), b""):
            h.update(b)
    return h.hexdigest()


def shank_folder(root, sh, label=LABEL):
    return os.path.join(root, label + chr(97 + int(sh)))


def clean(root):
    shutil.rmtree(root, ignore_errors=True)
    os.makedirs(root, exist_ok=True)


def read_raw(path, ncols):
    """int16 content of a .bin (reshaped to ncols columns) or of a .cbin/.ch pair, read without the library's reader"""
    import mtscomp
    path = str(path)
    if path.endswith(".cbin"):
        r = mtscomp.Reader()
        r.open(path, path.replace(".cbin", ".ch"))
        a = np.array(r[0:r.n_samples])
        r.close()
        return a
    a = np.fromfile(path, dtype=np.int16)
    return a.reshape(-1, ncols) if ncols and a.size % ncols == 0 else a
