"""
Size thresholds mined from the source under test.

Internal block / batch / chunk / cache sizes are the places where behaviour can change beyond what small inputs
reach ("one input per shortcut you can see in the code").  Instead of guessing them, the integer constants of the
modules a property is anchored in are read from the *current* source tree (literals, and constant products / powers /
shifts such as 2 ** 16 or 30 * 1000) and the checks add inputs just beyond each of them - so a newly introduced block
size is crossed as soon as it appears in the code.
"""
import ast
import inspect


def _const(node):
    if isinstance(node, ast.Constant) and isinstance(node.value, (int, float)) and not isinstance(node.value, bool):
        return node.value
    if isinstance(node, ast.UnaryOp) and isinstance(node.op, ast.USub):
        v = _const(node.operand)
        return None if v is None else -v
    if isinstance(node, ast.BinOp):
        a, b = _const(node.left), _const(node.right)
        if a is None or b is None:
            return None
        try:
            if isinstance(node.op, ast.Pow) and abs(b) <= 64 and abs(a) <= 1024:
                return a ** b
            if isinstance(node.op, ast.Mult):
                return a * b
            if isinstance(node.op, ast.LShift) and 0 <= b <= 40:
                return int(a) << int(b)
            if isinstance(node.op, ast.Add):
                return a + b
            if isinstance(node.op, ast.Sub):
                return a - b
        except Exception:
            return None
    return None


def mine(modules, lo=64, hi=3_000_000):
    """sorted integer constants in [lo, hi] appearing in the source of the given modules"""
    vals = set()
    for m in modules:
        try:
            src = inspect.getsource(m)
            tree = ast.parse(src)
        except Exception:
            continue
        for node in ast.walk(tree):
            v = _const(node)
            if v is None:
                continue
            try:
                if float(v).is_integer() and lo <= v <= hi:
                    vals.add(int(v))
            except Exception:
                pass
    return sorted(vals)


def beyond(thresholds, extra=(), cap=None, keep=None):
    """sizes just beyond each threshold (t + 1 and a non-smooth t + 7), merged with `extra`, optionally limited to the `keep` largest"""
    out = set(extra)
    for t in thresholds:
        out.add(t + 1)
        out.add(t + 7)
    out = sorted(x for x in out if cap is None or x <= cap)
    if keep is not None and len(out) > keep:
        out = out[-keep:]
    return out
