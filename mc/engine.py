"""
Common engine of the model-checking framework.

A *check* (one per property) is a list of *clauses*.  A clause is either

* a **case clause** (engine E1, box enumeration): a finite, fully materialised
  list of JSON-able cases and a function ``check(case) -> Res`` that drives the
  real implementation on that case and compares with the reference model.  The
  list is split over worker processes by stride; every case is evaluated (no
  sampling); a wall-clock cap, if hit, is reported and the run is then *not*
  called exhaustive;
* a **custom clause** (engines E2/E3): ``run(tier, seed, jobs) -> ClauseResult``
  which does its own exploration (BFS over histories, schedule enumeration) and
  ``replay(case)`` which re-executes one recorded case.

Violations carry a *key* (the canonical identity of the failing class, as narrow
as the defect) that is matched against /verif/known_findings.json.
"""
import hashlib
import json
import multiprocessing as mp
import os
import sys
import time
import traceback

VERIF = os.path.dirname(os.path.dirname(os.path.abspath(__file__)))
NPROC = int(os.environ.get("VERIF_JOBS", "16"))
MAX_VIOL_PER_SHARD = 40


class HarnessError(Exception):
    """A seam was not exercised / nondeterminism detected: a bug of the machinery, never a VIOLATION."""


class Res(object):
    """Result of one case: violations [(key, message)], outcome token, non-trivial?, implementation calls."""
    __slots__ = ("v", "o", "nt", "tr", "x", "s")

    def __init__(self, v=None, o="ok", nt=True, tr=1, x=None, s=None):
        self.s = s            # optional: an actual explored execution (schedule, history, ...) to show in the evidence samples
        self.v = v or []
        self.o = o
        self.nt = nt
        self.tr = tr
        self.x = x            # optional dict of numeric statistics, summed over the cases of a clause into the evidence


OK = Res()


class ClauseResult(object):
    def __init__(self, name):
        self.name = name
        self.evaluations = 0          # cases generated and evaluated
        self.states = 0               # distinct canonical cases / states
        self.transitions = 0          # implementation calls checked
        self.executions = 0           # executions of the real code (= traces validated against the impl)
        self.nontrivial = 0
        self.outcomes = {}            # outcome token -> count
        self.violations = []          # dicts {key, msg, case, idx}
        self.samples = []
        self.exhaustive = True
        self.caps = []
        self.extra = {}
        self.total = None
        self.wall = 0.0

    def viol(self, key, msg, case, idx=0):
        self.violations.append({"key": key, "msg": msg, "case": case, "idx": idx})

    def outcome(self, tok, n=1):
        self.outcomes[tok] = self.outcomes.get(tok, 0) + n

    def summary(self):
        d = {
            "clause": self.name, "evaluations": self.evaluations, "states": self.states,
            "transitions": self.transitions, "executions": self.executions,
            "distinct_nontrivial": self.nontrivial, "distinct_outcomes": len(self.outcomes),
            "exhaustive": self.exhaustive, "caps_hit": self.caps, "violating_cases": len(self.violations),
            "wall_s": round(self.wall, 2),
        }
        if self.total is not None:
            d["space_size"] = self.total
        d.update(self.extra)
        return d


class Clause(object):
    def __init__(self, name, doc, cases=None, check=None, run=None, replay=None, cap_s=None, setup=None, serial=False):
        self.name = name
        self.doc = doc
        self.cases = cases      # callable(tier, seed) -> list of cases
        self.check = check      # callable(case) -> Res
        self.run = run          # callable(tier, seed, jobs) -> ClauseResult
        self.replay = replay    # callable(case) -> Res   (defaults to check)
        self.cap_s = cap_s
        self.setup = setup      # callable(tier, seed) executed in the parent before forking
        self.serial = serial    # cases run one after the other in this process (they start worker processes of their own)


def _tok(o):
    if isinstance(o, (str, int, bool)) or o is None:
        return o
    return hashlib.sha1(repr(o).encode()).hexdigest()[:16]


_SHARD_STATE = {}


def _run_shard(args):
    cname, shard, nshards, deadline = args[:4]
    stop = args[4] if len(args) > 4 else None          # (start, stride, stop): used to re-run the cases of a shard one by one
    clause, cases = _SHARD_STATE[cname]
    evals = trans = nt = 0
    sums = {}
    shown = []
    outcomes = {}
    viols = []
    done_all = True
    distinct = set()
    for idx in range(shard, len(cases) if stop is None else stop, nshards):
        if deadline is not None and (evals & 15) == 0 and time.time() > deadline:
            done_all = False
            break
        case = cases[idx]
        try:
            r = clause.check(case)
        except HarnessError:
            raise
        except BaseException as e:  # an exception the check did not anticipate: the property demanded a result
            if isinstance(e, (KeyboardInterrupt, SystemExit)):
                raise
            tb = traceback.format_exc(limit=8)
            r = Res([("exc:%s" % type(e).__name__, "unexpected %s: %s\n%s" % (type(e).__name__, e, tb))], o="exc")
        evals += 1
        trans += r.tr
        if r.nt:
            nt += 1
        if r.x:
            for kx, vx in r.x.items():
                sums[kx] = sums.get(kx, 0) + vx
        if r.s is not None and len(shown) < 1:
            shown.append(r.s)
        t = _tok(r.o)
        outcomes[t] = outcomes.get(t, 0) + 1
        if r.v and len(viols) < MAX_VIOL_PER_SHARD * 50:
            for key, msg in r.v:
                viols.append({"key": key, "msg": msg, "case": case, "idx": idx})
    # keep, per key, the first few by enumeration order
    perkey = {}
    for v in viols:
        perkey.setdefault(v["key"], [])
        if len(perkey[v["key"]]) < 3:
            perkey[v["key"]].append(v)
    nviolcases = len({v["idx"] for v in viols})
    keycount = {}
    for v in viols:
        keycount[v["key"]] = keycount.get(v["key"], 0) + 1
    if len(outcomes) > 20000:
        outcomes = dict(list(outcomes.items())[:20000])
    return evals, trans, nt, outcomes, [x for vs in perkey.values() for x in vs], done_all, nviolcases, keycount, sums, shown


def run_case_clause(clause, tier, seed, jobs=NPROC):
    t0 = time.time()
    from mc import synth
    synth.scratch_root()          # created in the parent so that forked workers share (and the parent removes) it
    if clause.setup:
        clause.setup(tier, seed)
    cases = clause.cases(tier, seed)
    if not isinstance(cases, list):
        cases = list(cases)
    cr = ClauseResult(clause.name)
    cr.total = len(cases)
    if not cases:
        raise HarnessError("clause %s generated no case" % clause.name)
    _SHARD_STATE[clause.name] = (clause, cases)
    deadline = (t0 + clause.cap_s) if clause.cap_s else None
    from mc import par
    nshards = max(1, min(jobs * 4, len(cases)))
    if jobs <= 1 or nshards == 1 or clause.serial or os.environ.get("VERIF_SERIAL"):
        nshards = 1          # a single case runs in this process (it may start worker processes of its own, which a daemonic worker could not)
        results = [_run_shard((clause.name, s, nshards, deadline)) for s in range(nshards)]
    else:
        results = par.pmap(_run_shard, [(clause.name, s, nshards, deadline) for s in range(nshards)], jobs)
        dead = [s for s, r in enumerate(results) if isinstance(r, par.Died)]
        if dead:
            # a worker was killed (SIGSEGV / SIGBUS inside the library): re-run the cases of its shard one per task to find the culprit(s)
            singles = [(clause.name, idx, nshards, deadline, idx + 1) for s in dead for idx in range(s, len(cases), nshards)][:4000]
            res1 = par.pmap(_run_shard, singles, jobs)
            results = [r for r in results if not isinstance(r, par.Died)]
            for task, r in zip(singles, res1):
                if isinstance(r, par.Died):
                    idx = task[1]
                    v = {"key": "process-died", "msg": "the call killed the interpreter (%s)" % r.describe(), "case": cases[idx], "idx": idx}
                    r = (1, 1, 1, {"process-died": 1}, [v], True, 1, {"process-died": 1}, {}, [])
                results.append(r)
    keycount = {}
    nviolcases = 0
    sums = {}
    shown_all = []
    for evals, trans, nt, outcomes, viols, done_all, nvc, kc, sm, shown in results:
        shown_all += shown
        for kx, vx in sm.items():
            sums[kx] = sums.get(kx, 0) + vx
        cr.evaluations += evals
        cr.transitions += trans
        cr.nontrivial += nt
        for k, n in outcomes.items():
            cr.outcome(k, n)
        cr.violations.extend(viols)
        nviolcases += nvc
        for k, n in kc.items():
            keycount[k] = keycount.get(k, 0) + n
        if not done_all:
            cr.exhaustive = False
    cr.violations.sort(key=lambda v: v["idx"])
    if sums:
        cr.extra["sums"] = sums
    cr.extra["violations_per_key"] = keycount
    cr.extra["violating_case_count"] = nviolcases
    if not cr.exhaustive:
        cr.caps.append("wall cap %ss hit: %d of %d cases evaluated" % (clause.cap_s, cr.evaluations, cr.total))
    cr.states = cr.evaluations           # cases are generated distinct (product spaces / deduplicated lists)
    cr.executions = cr.transitions
    step = max(1, len(cases) // 3)
    cr.samples = shown_all[:2] + [cases[i] for i in range(0, len(cases), step)][:2]
    cr.wall = time.time() - t0
    del _SHARD_STATE[clause.name]
    return cr


# ----------------------------------------------------------------------------------------------
def load_findings():
    p = os.path.join(VERIF, "known_findings.json")
    if not os.path.exists(p):
        return []
    with open(p) as f:
        return json.load(f).get("findings", [])


def _jsonable(x):
    try:
        json.dumps(x)
        return x
    except TypeError:
        return repr(x)


def finish(prop, tier, seed, clauses_results, t0, assumptions, level="model_checking", rule=""):
    """Match violations against the known findings, write replays and the evidence file, return the exit code."""
    findings = [f for f in load_findings() if f.get("property") == prop]
    open_keys = {f["key"]: f for f in findings if f.get("status") == "open"}
    outbase = os.environ.get("VERIF_OUT", VERIF)          # mutant / scratch runs write their evidence and replays elsewhere
    replay_dir = os.path.join(outbase, "replays", prop)
    os.makedirs(replay_dir, exist_ok=True)
    for fn in os.listdir(replay_dir):
        if fn.endswith(".json"):
            os.unlink(os.path.join(replay_dir, fn))
    lines = []
    unknown = {}
    known_seen = {}
    for cr in clauses_results:
        for v in cr.violations:
            k = v["key"]
            if k in open_keys:
                known_seen.setdefault(k, v)
            else:
                unknown.setdefault((cr.name, k), v)
    for k, v in known_seen.items():
        lines.append("KNOWN-FINDING: property=%s %s [key=%s]" % (prop, open_keys[k]["what"], k))
    nviol = 0
    for (cname, k), v in unknown.items():
        nviol += 1
        safe = hashlib.sha1(("%s|%s" % (cname, k)).encode()).hexdigest()[:12]
        path = os.path.join(replay_dir, "%s-%s.json" % (cname, safe))
        with open(path, "w") as f:
            json.dump({"property": prop, "clause": cname, "key": k, "message": v["msg"],
                       "case": _jsonable(v["case"]), "tier": tier, "seed": seed}, f, indent=1, default=repr)
        lines.append("VIOLATION property=%s replay=%s" % (prop, path))
        sys.stderr.write("  [%s/%s] %s\n    %s\n" % (prop, cname, k, str(v["msg"])[:1500]))
    cov = {
        "evaluations": sum(c.evaluations for c in clauses_results),
        "distinct_nontrivial": sum(c.nontrivial for c in clauses_results),
        "rule": rule,
        "states": sum(c.states for c in clauses_results),
        "transitions": sum(c.transitions for c in clauses_results),
        "traces_validated_against_impl": sum(c.executions for c in clauses_results),
        "exhaustive": all(c.exhaustive for c in clauses_results),
        "distinct_outcomes": sum(len(c.outcomes) for c in clauses_results),
        "clauses": [c.summary() for c in clauses_results],
        "samples": [{"clause": c.name, "case": _jsonable(s)} for c in clauses_results for s in c.samples[:2]],
        "known_findings_seen": sorted(known_seen),
        "caps_hit": [x for c in clauses_results for x in c.caps],
    }
    ev = {
        "property_id": prop, "tier": tier, "seed": seed, "level": level, "coverage": cov,
        "assumptions": assumptions, "wall_s": round(time.time() - t0, 2), "violations": nviol,
    }
    os.makedirs(os.path.join(outbase, "evidence"), exist_ok=True)
    with open(os.path.join(outbase, "evidence", "%s.json" % prop), "w") as f:
        json.dump(ev, f, indent=1, default=repr)
    for c in clauses_results:
        s = c.summary()
        print("  clause %-28s evals=%-8d states=%-8d transitions=%-9d outcomes=%-6d nontrivial=%-8d exhaustive=%s viol=%d  %.1fs"
              % (c.name, c.evaluations, c.states, c.transitions, len(c.outcomes), c.nontrivial, c.exhaustive,
                 s["violating_cases"], c.wall))
    for ln in lines:
        print(ln)
    print("%s tier=%s seed=%d: %s (%.1fs)" % (prop, tier, seed, "HELD" if nviol == 0 else "%d VIOLATION(S)" % nviol,
                                               time.time() - t0))
    sys.stdout.flush()
    return 0 if nviol == 0 else 1


def run_check(mod, tier, seed, only=None, jobs=NPROC):
    t0 = time.time()
    check = mod.CHECK
    results = []
    for clause in check["clauses"]:
        if only and clause.name not in only:
            continue
        if clause.run is not None:
            t1 = time.time()
            cr = clause.run(tier, seed, jobs)
            cr.wall = time.time() - t1
        else:
            cr = run_case_clause(clause, tier, seed, jobs)
        results.append(cr)
    return finish(check["property"], tier, seed, results, t0, check.get("assumptions", []),
                  rule=check.get("rule", ""))


def run_replay(mod, path):
    with open(path) as f:
        rec = json.load(f)
    check = mod.CHECK
    clause = [c for c in check["clauses"] if c.name == rec["clause"]][0]
    if clause.setup:
        clause.setup(rec.get("tier", "quick"), rec.get("seed", 0))
    fn = clause.replay or clause.check
    outs = []
    for _ in range(2):          # replay twice: identical observations or the harness is not deterministic
        try:
            r = fn(rec["case"])
            outs.append(sorted((k, m) for k, m in r.v))
        except HarnessError:
            raise
        except Exception as e:
            outs.append([("exc:%s" % type(e).__name__, traceback.format_exc(limit=8))])
    if [k for k, _ in outs[0]] != [k for k, _ in outs[1]]:
        raise HarnessError("replay is not deterministic: %r vs %r" % (outs[0], outs[1]))
    print("replay of %s clause=%s case=%s" % (rec["property"], rec["clause"], json.dumps(rec["case"])[:600]))
    if outs[0]:
        for k, m in outs[0]:
            print("  FAILS key=%s\n    %s" % (k, m))
        print("VIOLATION property=%s replay=%s" % (rec["property"], path))
        return 1
    print("  holds on this case")
    return 0
