"""
Engine E2: explicit-state breadth-first exploration of operation histories on a real scratch directory.

A state is the exact content of the directory (canonical form: sorted (relative path, sha1)); a transition restores
the directory from a snapshot, calls the real entry point with one event (optionally killed before deviation point k)
and snapshots the result.  Levels are expanded in parallel: one worker task = (state, fault-free event); the worker
performs the fault-free run, measures its number K of deviation points, then (within the fault budget) every run
killed before point k = 0..K-1, checking the invariants on every directory it produces.
"""
import hashlib
import multiprocessing as mp
import os
import shutil
import time

from mc.engine import ClauseResult, HarnessError
from mc import par


def snapshot(root):
    snap = {}
    for dp, dns, fns in os.walk(root):
        rel = os.path.relpath(dp, root)
        if rel != "." and not dns and not fns:
            snap[rel + "/"] = None
        for fn in fns:
            p = os.path.join(dp, fn)
            with open(p, "rb") as f:
                snap[os.path.normpath(os.path.join(rel, fn))] = f.read()
    return snap


def restore(root, snap):
    shutil.rmtree(root, ignore_errors=True)
    os.makedirs(root)
    for rel, data in snap.items():
        p = os.path.join(root, rel)
        if data is None:
            os.makedirs(p, exist_ok=True)
            continue
        os.makedirs(os.path.dirname(p), exist_ok=True)
        with open(p, "wb") as f:
            f.write(data)


def canon(snap):
    h = hashlib.sha1()
    for rel in sorted(snap):
        h.update(rel.encode())
        h.update(b"\0")
        h.update(hashlib.sha1(snap[rel]).digest() if snap[rel] is not None else b"dir")
    return h.hexdigest()


def listing(snap):
    return sorted("%s(%s)" % (k, "dir" if v is None else len(v)) for k, v in snap.items())


_MODEL = {}


def _expand(args):
    """worker: expand one (state, event) pair; returns a list of transitions"""
    mname, sid, snap, info, event, fault_budget = args
    model = _MODEL[mname]
    return model.expand(sid, snap, info, event, fault_budget)


def bfs(model, name, tier, jobs, max_depth, max_faults, cap_s=None, cap_states=None):
    """
    model: object with
        initial() -> list of (snapshot, info)            info: small dict carried with the state (history-dependent facts)
        events(info, depth) -> list of fault-free events for a state
        expand(sid, snap, info, event, fault_budget) -> list of dicts
              {event, crash (None|k), obs, canon, snap, info, violations [(key,msg)], points}
    """
    t0 = time.time()
    cr = ClauseResult(name)
    _MODEL[name] = model
    states = {}          # canon -> dict(id, depth, faults, history)
    frontier = []
    ikey = getattr(model, "info_key", lambda info: "")      # history-dependent facts the oracle reads belong to the state identity
    for snap, info in model.initial():
        c = canon(snap) + ikey(info)
        if c in states:
            continue
        states[c] = dict(id=len(states), depth=0, faults=0, history=[])
        frontier.append((c, snap, info))
    ctx = mp.get_context("fork")
    outcomes = {}
    maxdepth_done = 0
    capped = False
    for depth in range(max_depth):
        tasks = []
        for c, snap, info in frontier:
            st = states[c]
            budget = max_faults - st["faults"]
            for ev in model.events(info, depth):
                tasks.append((name, c, snap, info, ev, budget))
        if not tasks:
            break
        model.depth_now = depth          # visible to the forked workers of this level
        results = par.pmap(_expand, tasks, jobs)
        nxt = []
        for task, trans in zip(tasks, results):
            pre = states[task[1]]
            if isinstance(trans, par.Died):
                # the real entry point killed the interpreter (e.g. SIGBUS after truncating a memory-mapped file)
                cr.transitions += 1
                cr.evaluations += 1
                hist = pre["history"] + [dict(task[4], crash=None)]
                cr.viol("process-died", "the run %r in the state reached by %r killed the interpreter (%s); the directory it leaves cannot be inspected"
                        % (task[4], pre["history"], trans.describe()), {"history": hist, "model": name}, idx=cr.transitions)
                continue
            for tr in trans:
                cr.transitions += 1
                cr.executions += 1
                cr.evaluations += 1
                tok = (tr["event"].get("name"), tr["crash"] is not None and tr.get("fault", "kill"), str(tr["obs"].get("status")), (tr["obs"].get("exc") or "")[:60])
                outcomes[tok] = outcomes.get(tok, 0) + 1
                hev = dict(tr["event"], crash=tr["crash"])
                if tr.get("fault") not in (None, "kill"):
                    hev["fault"] = tr["fault"]
                hist = pre["history"] + [hev]
                for key, msg in tr["violations"]:
                    cr.viol(key, msg, {"history": hist, "model": name}, idx=cr.transitions)
                c2 = tr["canon"] + ikey(tr["info"])
                if c2 not in states:
                    states[c2] = dict(id=len(states), depth=depth + 1, faults=pre["faults"] + (1 if tr["crash"] is not None else 0), history=hist)
                    if tr["snap"] is not None:
                        nxt.append((c2, tr["snap"], tr["info"]))
                    if tr["crash"] is not None or len(hist) > 1:
                        cr.nontrivial += 1
                else:
                    # keep the smallest number of faults with which the state is reachable
                    states[c2]["faults"] = min(states[c2]["faults"], pre["faults"] + (1 if tr["crash"] is not None else 0))
        maxdepth_done = depth + 1
        frontier = nxt
        if cap_s and time.time() - t0 > cap_s and depth + 1 < max_depth and frontier:
            capped = True
            cr.caps.append("wall cap %ds hit after depth %d: %d frontier states not expanded" % (cap_s, depth + 1, len(frontier)))
            break
        if cap_states and len(frontier) > cap_states:
            # expand only the first cap_states states of the next level (BFS order), say so
            cr.caps.append("depth %d: %d new states, only the first %d (BFS order) are expanded further" % (depth + 1, len(frontier), cap_states))
            frontier = frontier[:cap_states]
            capped = True
    cr.states = len(states)
    cr.exhaustive = not capped
    for k, n in outcomes.items():
        cr.outcome(str(k), n)
    cr.extra.update({"max_history_length": maxdepth_done, "fault_bound": max_faults, "distinct_directory_states": len(states)})
    sample_states = [s for s in states.values() if s["history"]][:1] + [s for s in states.values() if s["faults"] > 0][:1]
    cr.samples = [{"history": s["history"]} for s in sample_states]
    cr.wall = time.time() - t0
    del _MODEL[name]
    return cr


def expand_with_faults(model, root, snap, info, event, fault_budget):
    """
    generic expansion of one (state, event): the fault-free run, then every run killed before deviation point k.
    model.run(root, event, crash_at) -> (obs, watch) or (None, None) when the event is not enabled
    model.judge(root, pre_snap, info, event, crash, obs, log) -> (violations, info2)
    """
    out = []
    restore(root, snap)
    obs, w = model.run(root, event, None)
    if obs is None:
        return out
    K = w.count
    seen_local = set()

    def record(crash, obs, log, fault=None):
        snap2 = snapshot(root)
        c2 = canon(snap2)
        if fault in (None, "kill"):
            viol, info2 = model.judge(root, snap, info, event, crash, obs, log)
        else:
            viol, info2 = model.judge(root, snap, info, event, crash, obs, log, fault=fault)
        lk = c2 + getattr(model, "info_key", lambda i: "")(info2)
        first = lk not in seen_local
        seen_local.add(lk)
        out.append(dict(event=event, crash=crash, fault=fault, obs=obs, canon=c2, snap=snap2 if first else None, info=info2, violations=viol, points=K))

    record(None, obs, w.log)
    if fault_budget >= 1:
        for k in range(K):
            restore(root, snap)
            obs_k, wk = model.run(root, event, k)
            if not wk.crashed:
                raise HarnessError("crash point %d of %d was never reached when replaying %r: the run is not deterministic" % (k, K, event))
            record(k, obs_k, w.log, "kill")
        if "error" in getattr(model, "fault_kinds", ("kill",)):
            # the same points, but the operation FAILS (an OSError the library's own handlers see) instead of the process dying
            for k in range(K):
                restore(root, snap)
                obs_k, wk = model.run(root, event, k, kind="error")
                if not wk.fired:
                    raise HarnessError("fault point %d of %d was never reached when replaying %r: the run is not deterministic" % (k, K, event))
                record(k, obs_k, w.log, "error")
        if "corrupt" in getattr(model, "fault_kinds", ("kill",)):
            # one write is silently damaged (the step goes on, its result is altered): only at the points the model names, and only for events
            # that are supposed to notice (the model decides through corruptible(event, label))
            for k in range(K):
                if not model.corruptible(event, w.log[k]):
                    continue
                restore(root, snap)
                obs_k, wk = model.run(root, event, k, kind="corrupt")
                if not wk.fired:
                    raise HarnessError("fault point %d of %d was never reached when replaying %r: the run is not deterministic" % (k, K, event))
                record(k, obs_k, w.log, "corrupt")
    return out
