"""
Fault injection for engine E2: a process-wide audit hook sees every filesystem-mutating operation below a watched
root (open for writing, mkdir, rename/replace, remove/unlink, truncate, rmdir) and, together with wrapped "step"
functions (per-window / per-chunk writes through already open handles), numbers the *deviation points* of a run in
program order.  `Crash` (a BaseException, so that no `except Exception` in the library can swallow it) is raised
before the k-th point.  A second fault kind, `InjectedError` (an OSError, i.e. an ordinary exception that the
library's own `except Exception` / `finally` clean-up code sees: disk full, permission denied, a failing rename),
can be raised at the same points: "the operation fails" instead of "the process dies".
"""
import errno
import os
import sys

WRITE_FLAGS = os.O_WRONLY | os.O_RDWR | os.O_CREAT | os.O_TRUNC | os.O_APPEND


class Crash(BaseException):
    """the process dies here"""


class InjectedError(OSError):
    """the k-th filesystem operation / processing step fails with an I/O error (the process goes on)"""


class _Injector(object):
    def __init__(self):
        self.root = None
        self.active = False
        self.count = 0
        self.crash_at = None
        self.kind = "kill"
        self.log = []
        self.installed = False
        self.fired = False

    def install(self):
        if not self.installed:
            sys.addaudithook(self._hook)
            self.installed = True

    def _under(self, p):
        try:
            p = os.fspath(p)
        except TypeError:
            return False
        if isinstance(p, bytes):
            p = p.decode("utf8", "replace")
        return isinstance(p, str) and p.startswith(self.root)

    def point(self, what):
        """a deviation point; raises Crash if it is the chosen one"""
        if not self.active:
            return
        k = self.count
        self.count += 1
        self.log.append(what)
        if self.crash_at is not None and k == self.crash_at and not self.fired:
            self.fired = True
            if self.kind == "corrupt":
                return True          # the wrapped step goes on and its result is damaged by the caller (silent data corruption of one write)
            self.active = False
            if self.kind == "error":
                raise InjectedError(errno.ENOSPC, "injected I/O error at point %d: %s" % (k, what))
            raise Crash("crash before point %d: %s" % (k, what))

    def _hook(self, event, args):
        if not self.active or self.root is None:
            return
        try:
            if event == "open":
                path, mode, flags = args[0], args[1], args[2]
                writing = (isinstance(mode, str) and any(c in mode for c in "wax+")) or (isinstance(flags, int) and (flags & WRITE_FLAGS))
                if writing and self._under(path):
                    what = "open-w:%s" % os.path.relpath(os.fspath(path), self.root)
                else:
                    return
            elif event in ("os.mkdir", "os.remove", "os.rmdir", "os.truncate"):
                if not self._under(args[0]):
                    return
                what = "%s:%s" % (event[3:], os.path.relpath(os.fspath(args[0]), self.root))
            elif event in ("os.rename",):
                if not (self._under(args[0]) or self._under(args[1])):
                    return
                what = "rename:%s->%s" % (os.path.relpath(os.fspath(args[0]), self.root), os.path.relpath(os.fspath(args[1]), self.root))
            else:
                return
        except Exception:
            return
        self.point(what)


INJ = _Injector()


class watch(object):
    """with watch(root, crash_at=k, steps=[(obj, 'method', label), ...]) as w: ... ; w.count / w.log / w.crashed"""

    def __init__(self, root, crash_at=None, steps=(), kind="kill"):
        self.root = os.path.join(os.path.realpath(root), "")
        self.crash_at = crash_at
        self.kind = kind
        self.fired = False
        self.steps = steps
        self.saved = []
        self.crashed = False

    def __enter__(self):
        INJ.install()
        INJ.root = self.root
        INJ.count = 0
        INJ.log = []
        INJ.crash_at = self.crash_at
        INJ.kind = self.kind
        INJ.fired = False
        for step in self.steps:
            obj, name, label = step[:3]
            corrupt = step[3] if len(step) > 3 else None
            if not hasattr(obj, name):
                continue
            orig = getattr(obj, name)
            self.saved.append((obj, name, orig))

            def make(orig=orig, label=label, corrupt=corrupt):
                def wrapped(*a, **k):
                    fire = INJ.point("step:%s" % label)
                    if fire and corrupt is not None and getattr(corrupt, "pre", False):
                        a, k = corrupt(a, k)          # what the step is about to write is damaged
                        return orig(*a, **k)
                    r = orig(*a, **k)
                    if fire and corrupt is not None:
                        r = corrupt(r)
                    return r
                return wrapped
            setattr(obj, name, make())
        INJ.active = True
        return self

    def __exit__(self, et, ev, tb):
        INJ.active = False
        for obj, name, orig in self.saved:
            setattr(obj, name, orig)
        self.count = INJ.count
        self.log = list(INJ.log)
        self.fired = INJ.fired
        self.crashed = et is not None and issubclass(et, Crash)
        return self.crashed          # swallow the Crash: the caller sees .crashed
