"""
Synthetic SpikeGLX recordings (.bin + .meta) for every probe kind, of any (small) size, and the boring
reference reading of the same metadata (the oracle side never calls the library).

A *site* is (shank, row, col) in the repository's own grid convention (the one `neuropixel.rc2xy` uses):
  NP1      : 4 columns in a checkerboard (even rows: cols 0, 2; odd rows: cols 1, 3),  x = 16*col + 11, y = 20*row + 20
  NP2      : 2 columns,                                                           x = 32*col + 27, y = 15*row + 20
  NPultra  : 8 columns,                                                           x = 6*col,       y = 6*row
SpikeGLX writes them either as a shank map (shank:col:row:flag, NP1 with its own 2-column numbering)
or, since 2023-04, as a geometry map (shank:x:y:flag, x mirrored for NP1, y without the 20 um tip offset).
"""
import os
import re
import shutil
import tempfile

import numpy as np

KINDS = {
    # kind: (family, imDatPrb_type, has port/slot, default range, default maxint, fields in an imro entry)
    "3A": ("NP1", None, False, 0.6, None, 5),
    "3B1": ("NP1", 0, False, 0.6, None, 6),
    "3B2": ("NP1", 0, True, 0.6, None, 6),
    "NP2.1": ("NP2", 21, True, 0.5, 8192, 5),
    "NP2.1b": ("NP2", 1030, True, 0.62, 2048, 5),
    "NP2.4": ("NP2", 24, True, 0.5, 8192, 5),
    "NP2.4b": ("NP2", 2013, True, 0.62, 2048, 5),
    "NPultra": ("NPultra", 1100, True, 0.6, 512, 6),
}
GRID = {"NP1": (16, 11, 20, 20), "NP2": (32, 27, 15, 20), "NPultra": (6, 0, 6, 0)}
VERSION_NAME = {"3A": "3A", "3B1": "3B1", "3B2": "3B2", "NP2.1": "NP2.1", "NP2.1b": "NP2.1", "NP2.4": "NP2.4",
                "NP2.4b": "NP2.4", "NPultra": "NPultra"}
GAINS = [50, 125, 250, 500, 1000, 1500, 2000, 3000]


def family(kind):
    return KINDS[kind][0]


def site_xy(kind, site):
    dx, x0, dy, y0 = GRID[family(kind)]
    sh, row, col = site
    return (col * dx + x0, row * dy + y0)


def shankmap_entry(kind, site, flag=1):
    sh, row, col = site
    if family(kind) == "NP1":
        c2 = 2 + (row % 2) - col
        assert c2 % 2 == 0 and c2 // 2 in (0, 1), "site %r is not on the NP1 checkerboard" % (site,)
        return "(%d:%d:%d:%d)" % (sh, c2 // 2, row, flag)
    return "(%d:%d:%d:%d)" % (sh, col, row, flag)


def geommap_entry(kind, site, flag=1):
    sh, row, col = site
    x, y = site_xy(kind, site)
    if family(kind) == "NP1":
        return "(%d:%d:%d:%d)" % (sh, 70 - x, y - 20, flag)
    return "(%d:%d:%d:%d)" % (sh, x, y - GRID[family(kind)][3], flag)


def meta_items(kind, sites, ns, stream="ap", encoding="shank", fs=None, gains=None, vrange=None, maxint=None,
               nsync=1, nsaved=None, tilde=True, extra=None, saved_subset=None, imro_entries=None):
    """
    :return: list of (key, string value) in file order
    gains: list of (ap gain, lf gain) per site (NP1 / NPultra); NP2 entries carry no gain
    nsaved: number of saved channels incl. sync (defaults len(sites) + nsync)
    """
    fam, prb_type, portslot, drange, dmaxint, nfields = KINDS[kind]
    k = len(sites)
    nsaved = k + nsync if nsaved is None else nsaved
    nch = nsaved - nsync
    if fs is None:
        fs = 30000 if stream == "ap" else 2500
    vrange = drange if vrange is None else vrange
    maxint = dmaxint if maxint is None else maxint
    t = "~" if tilde else ""
    aplf = "%d,0,%d" % (nch, nsync) if stream == "ap" else "0,%d,%d" % (nch, nsync)
    items = [
        ("acqApLfSy", "%d,%d,%d" % (nch, nch if fam != "NP2" else 0, nsync)),
        ("appVersion", "20230905" if encoding == "geom" else "20201103"),
        ("fileCreateTime", "2021-08-02T14:30:26"),
        ("fileName", "D:/data/verif/_spikeglx_ephysData_g0_t0.imec0.%s.bin" % stream),
        ("fileSHA1", "C040C224559DD5FAB71AC1A1542049BA9D68A77E"),
        ("fileSizeBytes", "%d" % (ns * nsaved * 2)),
        ("fileTimeSecs", fixed(ns / fs)),
        ("firstSample", "110884048"),
        ("gateMode", "Immediate"),
        ("imAiRangeMax", fixed(vrange)),
        ("imAiRangeMin", "-" + fixed(vrange)),
    ]
    if encoding == "geom":
        # SpikeGLX >= 2023 also writes the AP gain of channel 0 (the per-channel gains stay in the IMRO table), see sample3B_version202304.ap.meta
        g0 = (gains[0][0] if (gains and fam != "NP2") else (100 if fam == "NP2" else 500))
        items += [("imAnyChanFullBand", "false"), ("imCalibrated", "true"), ("imChan0apGain", "%d" % g0)]
    if kind == "3A":
        items += [("imProbeOpt", "3"), ("imProbeSN", "641251510")]
    else:
        items += [("imDatPrb_pn", "NP2010")]
        if portslot:
            items += [("imDatPrb_port", "1"), ("imDatPrb_slot", "2")]
        items += [("imDatPrb_sn", "19011110513"), ("imDatPrb_type", "%d" % prb_type)]
    if maxint is not None:
        items.append(("imMaxInt", "%d" % maxint))
    items += [
        ("imSampRate", fixed(fs)),
        ("imStdby", ""),
        ("nSavedChans", "%d" % nsaved),
        ("snsApLfSy", aplf),
        ("snsSaveChanSubset", saved_subset or ("0:%d" % (nsaved - 1))),
        ("syncSourceIdx", "3"),
        ("trigMode", "Immediate"),
    ]
    if kind == "3A":
        items.append(("typeEnabled", "imec"))
    items += [("typeThis", "imec"), ("userNotes", "")]
    if extra:
        items += list(extra)
    # imro table
    if gains is None:
        gains = [(500, 250)] * k
    if kind == "3A":
        hdr = "(641251510,3,%d)" % k
    else:
        hdr = "(%d,%d)" % (prb_type, k)
    ent = []
    # SpikeGLX always lists the whole probe in the IMRO table, also when only the first channels are saved: imro_entries > len(sites)
    kim = k if imro_entries is None else imro_entries
    if kind == "3A":
        hdr = "(641251510,3,%d)" % kim
    else:
        hdr = "(%d,%d)" % (prb_type, kim)
    gains = list(gains) + [(GAINS[(j + 3) % 8], GAINS[(j + 6) % 8]) for j in range(len(gains), kim)]
    for i in range(kim):
        if fam == "NP2":
            ent.append("(%d 0 0 0 %d)" % (i, i))
        elif nfields == 5:
            ent.append("(%d 0 0 %d %d)" % (i, gains[i][0], gains[i][1]))
        else:
            ent.append("(%d 0 0 %d %d 1)" % (i, gains[i][0], gains[i][1]))
    items.append((t + "imroTbl", hdr + "".join(ent)))
    chmap = "".join("(%s%d;%d:%d)" % ("AP" if stream == "ap" else "LF", i, i, i) for i in range(k))
    items.append((t + "snsChanMap", "(384,384,1)" + chmap + "(SY0;768:768)"))
    if encoding == "shank":
        nsh = {"NP1": "(1,2,480)", "NP2": "(4,2,640)" if kind.startswith("NP2.4") else "(1,2,640)", "NPultra": "(1,8,48)"}[fam]
        items.append((t + "snsShankMap", nsh + "".join(shankmap_entry(kind, s) for s in sites)))
    else:
        hdrg = {"NP1": "(NP1010,1,0,70)", "NP2": "(NP2014,4,250,70)" if kind.startswith("NP2.4") else "(NP2003,1,0,70)",
                "NPultra": "(NP1100,1,0,70)"}[fam]
        items.append((t + "snsGeomMap", hdrg + "".join(geommap_entry(kind, s) for s in sites)))
    return items


def nidq_items(ns, mn=0, ma=0, xa=1, dw=1, fs=30003.0003, mngain=200, magain=1, vrange=5, tilde=True):
    t = "~" if tilde else ""
    nsaved = mn + ma + xa + dw
    return [
        ("acqMnMaXaDw", "%d,%d,%d,%d" % (mn, ma, xa, dw)),
        ("appVersion", "20190327"),
        ("fileSizeBytes", "%d" % (ns * nsaved * 2)),
        ("fileTimeSecs", fixed(ns / fs)),
        ("firstSample", "1738164"),
        ("nSavedChans", "%d" % nsaved),
        ("niAiRangeMax", "%d" % vrange),
        ("niAiRangeMin", "%d" % -vrange),
        ("niMAGain", "%d" % magain),
        ("niMNGain", "%d" % mngain),
        ("niSampRate", fixed(fs)),
        ("snsMnMaXaDw", "%d,%d,%d,%d" % (mn, ma, xa, dw)),
        ("snsSaveChanSubset", "all"),
        ("typeImEnabled", "2"),
        ("typeNiEnabled", "1"),
        ("typeThis", "nidq"),
        ("userNotes", ""),
        (t + "snsChanMap", "(0,0,1,1,1)(XA0;0:0)(XD0;1:1)"),
        (t + "snsShankMap", "(1,2,0)"),
    ]


def fixed(x):
    """SpikeGLX writes numbers in fixed notation (never 1e-05)"""
    if float(x) == int(x):
        return "%d" % int(x)
    return np.format_float_positional(float(x), unique=True, trim="-")


def meta_text(items):
    return "".join("%s=%s\n" % kv for kv in items)


def write_recording(folder, stem, data, items, suffix=".bin"):
    """writes <stem>.bin / <stem>.meta, returns the bin path"""
    os.makedirs(folder, exist_ok=True)
    fbin = os.path.join(folder, stem + suffix)
    np.ascontiguousarray(data, dtype=np.int16).tofile(fbin)
    with open(os.path.join(folder, stem + ".meta"), "w") as f:
        f.write(meta_text(items))
    return fbin


# ------------------------------------------------------------------ reference reading (no library code)
def ref_sort_order(sites):
    """positions of the sites ordered by shank, then row, then descending column"""
    return sorted(range(len(sites)), key=lambda i: (sites[i][0], sites[i][1], -sites[i][2]))


def ref_s2v(kind, stream, k, nsync, gains=None, vrange=None, maxint=None):
    """per on-disk channel volts per bit as float64 python numbers: range / maxint / gain, 1 on sync"""
    fam, prb_type, portslot, drange, dmaxint, nfields = KINDS[kind]
    vrange = drange if vrange is None else vrange
    if maxint is None:
        maxint = dmaxint if dmaxint is not None else 512
    out = []
    for i in range(k):
        if fam == "NP2":
            g = 80
        else:
            g = (gains[i] if gains is not None else (500, 250))[0 if stream == "ap" else 1]
        out.append(vrange / maxint / g)
    return out + [1.0] * nsync


def separating_data(ns, nc, seed=0, full_range=True):
    """every cell holds a distinct int16 (ns*nc <= 65536): a gather on the wrong cell is always visible"""
    assert ns * nc <= 65536
    rng = np.random.default_rng(seed + 4242)
    vals = rng.permutation(65536)[: ns * nc].astype(np.int64) - 32768
    return vals.reshape(ns, nc).astype(np.int16)


class Scratch(object):
    """a scratch directory on tmpfs, removed on exit"""

    def __init__(self, prefix="verif_"):
        base = "/dev/shm" if os.path.isdir("/dev/shm") and os.access("/dev/shm", os.W_OK) else tempfile.gettempdir()
        self.path = tempfile.mkdtemp(prefix=prefix, dir=base)

    def __enter__(self):
        return self.path

    def __exit__(self, *a):
        shutil.rmtree(self.path, ignore_errors=True)


_ROOT = {}


def scratch_root():
    """one scratch root per run, created by the parent process before any fork, removed at its exit"""
    import atexit
    if "path" not in _ROOT:
        base = "/dev/shm" if os.path.isdir("/dev/shm") and os.access("/dev/shm", os.W_OK) else tempfile.gettempdir()
        _ROOT["path"] = tempfile.mkdtemp(prefix="verif_", dir=base)
        _ROOT["pid"] = os.getpid()

        def _rm(path=_ROOT["path"], pid=_ROOT["pid"]):
            if os.getpid() == pid:
                shutil.rmtree(path, ignore_errors=True)
        atexit.register(_rm)
    return _ROOT["path"]


def proc_scratch(clean=False):
    """a scratch dir private to this process below the run's root (the parent removes the root)"""
    p = os.path.join(scratch_root(), "p%d" % os.getpid())
    if clean and os.path.isdir(p):
        shutil.rmtree(p, ignore_errors=True)
    os.makedirs(p, exist_ok=True)
    return p


# ------------------------------------------------------------------ conformance of the generator with shipped fixtures
def fixture_conformance(fixture_dir):
    """
    For every shipped .meta whose site table is in one of the two encodings: parse the table with a plain
    regex, turn every entry into a site with this module's conventions, regenerate the entry and compare the
    strings.  Anchors the generator (and so the oracles) in shipped SpikeGLX output.
    :return: number of entries compared
    """
    n = 0
    for fn in sorted(os.listdir(fixture_dir)):
        if not fn.endswith(".meta"):
            continue
        txt = open(os.path.join(fixture_dir, fn)).read()
        d = dict(ln.split("=", 1) for ln in txt.splitlines() if "=" in ln)
        d = {k.replace("~", ""): v for k, v in d.items()}
        if d.get("typeThis") != "imec":
            continue
        if "typeEnabled" in d:
            kind = "3A"
        else:
            ty = int(d["imDatPrb_type"])
            kind = {0: "3B2", 21: "NP2.1", 1030: "NP2.1b", 24: "NP2.4", 2013: "NP2.4b", 1100: "NPultra"}[ty]
        fam = family(kind)
        dx, x0, dy, y0 = GRID[fam]
        if "snsShankMap" in d:
            ent = re.findall(r"\((\d+):(\d+):(\d+):(\d+)\)", d["snsShankMap"])
            for sh, c, r, fl in ent:
                sh, c, r, fl = int(sh), int(c), int(r), int(fl)
                col = (2 + r % 2 - 2 * c) if fam == "NP1" else c
                assert shankmap_entry(kind, (sh, r, col), fl) == "(%d:%d:%d:%d)" % (sh, c, r, fl), (fn, sh, c, r)
                n += 1
        elif "snsGeomMap" in d:
            ent = re.findall(r"\((\d+):(\d+):(\d+):(\d+)\)", d["snsGeomMap"])
            for sh, x, y, fl in ent:
                sh, x, y, fl = int(sh), int(x), int(y), int(fl)
                xi = 70 - x if fam == "NP1" else x
                col, row = (xi - x0) // dx, y // dy
                assert (xi - x0) % dx == 0 and y % dy == 0, (fn, x, y)
                assert geommap_entry(kind, (sh, row, col), fl) == "(%d:%d:%d:%d)" % (sh, x, y, fl), (fn, sh, x, y)
                n += 1
    return n


def link_into_store(fdata, decoy_meta_text=None):
    """
    moves a data file into <folder>/store/ (under the same name) and leaves a symbolic link in its place - the layout of content-addressed data stores;
    an unrelated metadata file of the same stem can be put next to the link's TARGET: the recording's own .meta / .ch stay next to the link
    """
    import os
    folder = os.path.dirname(fdata)
    store = os.path.join(folder, "store")
    os.makedirs(store, exist_ok=True)
    tgt = os.path.join(store, os.path.basename(fdata))
    if os.path.lexists(tgt):
        os.unlink(tgt)
    os.rename(fdata, tgt)
    if os.path.lexists(fdata):
        os.unlink(fdata)
    os.symlink(tgt, fdata)
    if decoy_meta_text is not None:
        with open(os.path.splitext(tgt)[0] + ".meta", "w") as fh:
            fh.write(decoy_meta_text)
    return tgt
