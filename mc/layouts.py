"""
Presentation classes of one logical input: the same values handed over in another memory layout (Fortran order,
strided view of a larger buffer, negative strides, read-only) or another dtype.  A function of array *values* must
return the same result for every presentation and - unless it is documented to work in place - leave its arguments
untouched.  `make_clause(property, specs)` turns a list of call specifications into an E1 clause that enumerates
every (call, argument, presentation) exhaustively:

    spec = dict(key="fshift", make=lambda seed: ([w, s], dict(axis=-1)), fn=lambda w, s, **k: fourier.fshift(w, s, **k),
                args=(0, 1),            # argument positions that are presented in other layouts
                inplace=(),             # argument positions the function is documented to modify (not checked for mutation, never read-only)
                dtypes={0: [np.float32]},   # extra dtype presentations per argument: result compared with the reference within tol_dtype
                tol=1e-12, tol_dtype=1e-5, skip=("readonly",), dtype_same=True)
"""
import numpy as np

from mc.engine import Clause, Res

LAYOUTS = ("fortran", "strided", "negative-strides", "readonly", "offset-view")


def present(a, how):
    a = np.asarray(a)
    if how == "fortran":
        return np.asfortranarray(a.copy())
    if how == "strided":
        big = np.zeros(tuple(2 * n + 1 for n in a.shape), dtype=a.dtype)
        big[...] = np.nan if a.dtype.kind == "f" else 0
        view = big[tuple(slice(1, None, 2) for _ in a.shape)]
        view[...] = a
        return view
    if how == "negative-strides":
        rev = tuple(slice(None, None, -1) for _ in a.shape)
        return a[rev].copy()[rev]
    if how == "readonly":
        c = a.copy()
        c.setflags(write=False)
        return c
    if how == "offset-view":
        # a view that starts one element into its buffer (data pointer not at the start of the allocation)
        buf = np.zeros(a.size + 1, dtype=a.dtype)
        v = buf[1:].reshape(a.shape)
        v[...] = a
        return v
    raise ValueError(how)


def flatten(res):
    """result of a library call -> list of (label, ndarray)"""
    out = []

    def rec(x, lab):
        if x is None or callable(x):
            return
        if isinstance(x, (tuple, list)):
            for i, y in enumerate(x):
                rec(y, "%s[%d]" % (lab, i))
            return
        if isinstance(x, dict):
            for k in sorted(x, key=str):
                rec(x[k], "%s[%r]" % (lab, k))
            return
        if hasattr(x, "columns") and hasattr(x, "to_numpy"):      # DataFrame
            for c in x.columns:
                rec(x[c].to_numpy(), "%s.%s" % (lab, c))
            return
        try:
            out.append((lab, np.asarray(x)))
        except Exception:
            return
    rec(res, "out")
    return out


def same(a, b, tol, dtype_same=True):
    if len(a) != len(b):
        return "number of outputs %d vs %d" % (len(a), len(b))
    for (la, xa), (lb, xb) in zip(a, b):
        if xa.shape != xb.shape:
            return "%s: shape %r vs %r" % (la, xb.shape, xa.shape)
        if dtype_same and xa.dtype != xb.dtype:
            return "%s: dtype %s vs %s" % (la, xb.dtype, xa.dtype)
        if xa.dtype.kind in "fc" or xb.dtype.kind in "fc":
            fa, fb = xa.astype(complex if "c" in (xa.dtype.kind, xb.dtype.kind) else float), xb.astype(complex if "c" in (xa.dtype.kind, xb.dtype.kind) else float)
            na, nb = np.isnan(fa), np.isnan(fb)
            if not np.array_equal(na, nb):
                return "%s: NaN pattern differs" % la
            scale = max(1e-300, float(np.max(np.abs(fa[~na]))) if (~na).any() else 1.0)
            err = float(np.max(np.abs(fa[~na] - fb[~na]))) if (~na).any() else 0.0
            if not err <= tol * scale:
                return "%s: values differ by %.3g (relative to %.3g)" % (la, err, scale)
        elif not np.array_equal(xa, xb):
            return "%s: values differ" % la
    return None


def make_clause(specs, name="layouts", doc=None):
    specs = list(specs)

    def cases(tier, seed):
        out = []
        for si, sp in enumerate(specs):
            for ai in sp.get("args", (0,)):
                for how in LAYOUTS:
                    if how in sp.get("skip", ()) or (how == "readonly" and ai in sp.get("inplace", ())):
                        continue
                    out.append((si, ai, how))
                for di in range(len(sp.get("dtypes", {}).get(ai, []))):
                    out.append((si, ai, "dtype:%d" % di))
            out.append((si, -1, "mutation"))
            out.append((si, -1, "state-leak"))
        return out

    def check(case):
        si, ai, how = case
        sp = specs[si]
        key = sp["key"]
        args, kw = sp["make"](0)
        args = [np.array(a) if isinstance(a, np.ndarray) else a for a in args]
        ref_args = [a.copy() if isinstance(a, np.ndarray) else a for a in args]
        try:
            ref = flatten(sp["fn"](*ref_args, **kw))
        except Exception as e:
            return Res([("%s:%s:reference-exc" % (name, key), "%s: the plain call raised %s: %s" % (key, type(e).__name__, e))])
        v = []
        if how == "state-leak":
            # the same call again after a call with other values of the same shapes (and after the caller scribbled over the first result): same result
            def perturbed(a):
                if not isinstance(a, np.ndarray) or a.size == 0:
                    return a
                b = a[..., ::-1].copy() if a.ndim else a.copy()
                if b.dtype.kind == "f" or b.dtype.kind == "c":
                    b = b * 1.5 + (0.25 * (np.abs(b).max() if b.size else 0.0))
                elif b.dtype.kind in "iu" and b.size > 1:
                    b = np.roll(b, 1)
                return b.astype(a.dtype)
            try:
                first = sp["fn"](*[a.copy() if isinstance(a, np.ndarray) else a for a in args], **kw)
                snap = [(lab, x.copy()) for lab, x in flatten(first)]
                for lab, x in flatten(first):
                    if isinstance(x, np.ndarray) and x.flags.writeable and x.size:
                        try:
                            x[...] = 0
                        except Exception:
                            pass
                try:
                    sp["fn"](*[perturbed(a) for a in args], **kw)
                except Exception:
                    pass          # the perturbed input may be invalid for this call: it only serves to disturb hidden state
                again = flatten(sp["fn"](*[a.copy() if isinstance(a, np.ndarray) else a for a in args], **kw))
                d = same(snap, again, 0.0, True)
                if d:
                    v.append(("%s:%s:state-leak" % (name, key), "%s: the same call gives another result after a call with other values of the same shapes: %s" % (key, d)))
            except Exception as e:
                v.append(("%s:%s:state-leak-exc" % (name, key), "%s: %s: %s" % (key, type(e).__name__, e)))
            return Res(v, o=(key, how))
        if how == "mutation":
            # the result must not share memory with an argument: the caller goes on using (overwrites) its own arrays
            keep_args = [a.copy() if isinstance(a, np.ndarray) else a for a in args]
            try:
                kept = sp["fn"](*keep_args, **kw)
                snap = [(lab, x.copy()) for lab, x in flatten(kept)]
                for i, a in enumerate(keep_args):
                    if isinstance(a, np.ndarray) and i not in sp.get("inplace", ()) and a.flags.writeable and a.size:
                        a[...] = a.flat[0] * 0 + (7 if a.dtype.kind in "iu" else 1e3)
                d = same(snap, flatten(kept), 0.0, True)
                if d:
                    v.append(("%s:%s:result-aliases-argument" % (name, key), "%s: the returned result changes when the caller overwrites its own argument arrays afterwards: %s" % (key, d)))
            except Exception as e:
                v.append(("%s:%s:mutation-exc" % (name, key), "%s: %s: %s" % (key, type(e).__name__, e)))
            for i, (a, b) in enumerate(zip(args, ref_args)):
                if isinstance(a, np.ndarray) and i not in sp.get("inplace", ()):
                    if not (a.shape == b.shape and a.dtype == b.dtype and a.tobytes() == b.tobytes()):
                        v.append(("%s:%s:argument-modified" % (name, key), "%s: argument %d is modified by the call (not documented as in place)" % (key, i)))
            return Res(v, o=(key, how))
        call_args = [a.copy() if isinstance(a, np.ndarray) else a for a in args]
        tol, ds = sp.get("tol", 1e-10), sp.get("dtype_same", True)
        if how.startswith("dtype:"):
            dt = sp["dtypes"][ai][int(how[6:])]
            call_args[ai] = call_args[ai].astype(dt)
            label = "dtype %s" % np.dtype(dt).name
            tol, ds = sp.get("tol_dtype", 1e-4), False
        else:
            call_args[ai] = present(call_args[ai], how)
            label = how
        before = [a.tobytes() if isinstance(a, np.ndarray) else None for a in call_args]
        try:
            got = flatten(sp["fn"](*call_args, **kw))
        except Exception as e:
            return Res([("%s:%s:%s:exc" % (name, key, label), "%s with argument %d presented as %s raised %s: %s (the plain C-ordered call works)"
                         % (key, ai, label, type(e).__name__, e))], o=(key, how))
        d = same(ref, got, tol, ds)
        if d:
            v.append(("%s:%s:%s" % (name, key, label), "%s with argument %d presented as %s: result differs from the plain call: %s" % (key, ai, label, d)))
        for i, a in enumerate(call_args):
            if isinstance(a, np.ndarray) and i not in sp.get("inplace", ()) and a.tobytes() != before[i]:
                v.append(("%s:%s:%s:argument-modified" % (name, key, label), "%s with argument %d presented as %s: argument %d is modified by the call" % (key, ai, label, i)))
        return Res(v, o=(key, how))

    return Clause(name, doc or "every call x array argument x memory layout (Fortran order, strided view, negative strides, read-only, offset view) and dtype: "
                  "same result as the plain call, arguments untouched", cases=cases, check=check)
