"""
A parallel map over forked worker processes that survives the death of a worker.

The library under test memory-maps files; a defect that truncates a mapped file (or any crash inside NumPy/SciPy)
kills the interpreter with SIGBUS/SIGSEGV.  `multiprocessing.Pool.map` then waits for ever.  Here the parent keeps
track of the task every worker is on: when a worker dies its task is reported as `Died(exitcode)` - the caller turns
that into a violation ("the call killed the process") - and a replacement worker is forked.

Tasks stay in the parent's memory and are inherited through fork (they may be large directory snapshots); only task
indices and results travel through pipes.
"""
import multiprocessing as mp
import os
import signal
import time
import traceback


class Died(object):
    def __init__(self, exitcode):
        self.exitcode = exitcode

    def describe(self):
        if self.exitcode is not None and self.exitcode < 0:
            try:
                return "killed by signal %s" % signal.Signals(-self.exitcode).name
            except Exception:
                return "killed by signal %d" % -self.exitcode
        return "exited with status %r" % self.exitcode


class Raised(object):
    """the task function raised in the worker: carried to the parent and re-raised there"""

    def __init__(self, exc, tb):
        self.exc = exc
        self.tb = tb


_STATE = {}


def _worker(slot):
    fn, tasks, nxt, current, res_q = _STATE["fn"], _STATE["tasks"], _STATE["next"], _STATE["current"], _STATE["res_q"]
    while True:
        with nxt.get_lock():
            i = nxt.value
            if i >= len(tasks):
                break
            nxt.value = i + 1
            current[slot] = i
        try:
            r = fn(tasks[i])
        except BaseException as e:      # noqa
            if isinstance(e, (KeyboardInterrupt, SystemExit)):
                raise
            try:
                r = Raised(e, traceback.format_exc())
                import pickle
                pickle.dumps(r)
            except Exception:
                r = Raised(RuntimeError("%s: %s" % (type(e).__name__, e)), traceback.format_exc())
        res_q.put((i, r))
    current[slot] = -1
    res_q.put((-1, slot))


def pmap(fn, tasks, nproc):
    """[fn(t) for t in tasks] computed by up to nproc forked workers; an element is Died(...) if its worker was killed"""
    tasks = list(tasks)
    n = len(tasks)
    if n == 0:
        return []
    if nproc <= 1 or os.environ.get("VERIF_SERIAL"):
        return [fn(t) for t in tasks]
    ctx = mp.get_context("fork")
    nproc = min(nproc, n)
    _STATE.update(fn=fn, tasks=tasks, next=ctx.Value("q", 0), current=ctx.Array("q", [-1] * nproc), res_q=ctx.SimpleQueue())
    res_q, current = _STATE["res_q"], _STATE["current"]
    procs = {}
    finished = set()

    def spawn(slot):
        p = ctx.Process(target=_worker, args=(slot,))
        p.daemon = True
        p.start()
        procs[slot] = p
    for s in range(nproc):
        spawn(s)
    results = {}
    try:
        while len(results) < n:
            got = False
            while res_q._reader.poll(0.05):
                i, r = res_q.get()
                got = True
                if i == -1:
                    finished.add(r)
                else:
                    results[i] = r
            if got:
                continue
            for slot, p in list(procs.items()):
                if slot in finished or p.is_alive():
                    continue
                p.join()
                # drain what it may have sent before dying
                while res_q._reader.poll(0.05):
                    i, r = res_q.get()
                    if i == -1:
                        finished.add(r)
                    else:
                        results[i] = r
                if slot in finished:
                    continue
                i = current[slot]
                if i >= 0 and i not in results:
                    results[i] = Died(p.exitcode)
                current[slot] = -1
                with _STATE["next"].get_lock():
                    more = _STATE["next"].value < n
                if more:
                    spawn(slot)
                else:
                    finished.add(slot)
            if len(finished) == len(procs) and len(results) < n:
                # every worker is gone: whatever is missing died without trace
                for i in range(n):
                    results.setdefault(i, Died(None))
    finally:
        for p in procs.values():
            if p.is_alive():
                p.terminate()
        for p in procs.values():
            p.join(1)
        _STATE.clear()
    out = [results[i] for i in range(n)]
    for r in out:
        if isinstance(r, Raised):
            raise r.exc
    return out
