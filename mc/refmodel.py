"""Boring reference models shared by several checks (never call the library)."""
import numpy as np

ULP32 = 2.0 ** -23


def calibrated(raw, s2v):
    """float32(raw) x volts-per-bit in double precision (the mathematically exact product, then compared within 1 float32 ulp)"""
    return raw.astype(np.float32).astype(np.float64) * np.asarray(s2v, dtype=np.float64)[None, :]


def calib_close(got, ref64):
    """
    got: float32 array from the library; ref64: exact double product.
    'exactly float32(raw) x factor': any correctly rounded float32 evaluation (product formed in float32 or in float64 and
    rounded) lies within 1 float32 ulp of the exact product; a wrong gain or a wrong cell is off by orders of magnitude more.
    """
    if got.shape != ref64.shape:
        return False
    tol = np.abs(ref64) * (1.5 * ULP32) + 1e-300
    return bool(np.all(np.abs(got.astype(np.float64) - ref64) <= tol))


def bits(words):
    """(n, 16) array: column k = bit k of the 16-bit word"""
    w = np.asarray(words).astype(np.int64) & 0xFFFF
    return np.stack([(w >> k) & 1 for k in range(16)], axis=1).astype(np.int8)
